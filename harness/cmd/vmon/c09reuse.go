package main

import (
	"bytes"
	"context"
	"crypto/rand"
	"crypto/tls"
	"crypto/x509"
	"crypto/x509/pkix"
	"fmt"
	"io"
	"math/big"
	"path/filepath"
	"time"

	"github.com/ansible/receptor/pkg/netceptor"
)

// layer 1b: one verifier instance serves several handshakes (a listener with pinned client
// certificates, a redialling dialer with a pinned server certificate). The function returned by
// ReceptorVerifyFunc is built ONCE per configuration and then called with a sequence of different
// peer certificates: each call must be judged on the certificate it was given.
func (env *c09Env) verifierReuse() {
	tlscfg := &tls.Config{RootCAs: env.pki.cas["caS"].pool(), ClientCAs: env.pki.cas["caC"].pool()}
	for _, role := range []string{"server", "client"} {
		for _, mode := range []string{"dns", "receptor"} {
			ne := c09NameExpected(role, mode)
			exp := env.e
			if !ne {
				exp = ""
			}
			// two different certificates that are acceptable apart from the pin
			var a, b *c09Cert
			for _, c := range env.certs {
				if !c.clean(role, mode, ne, "none") {
					continue
				}
				if a == nil {
					a = c
				} else if !bytes.Equal(a.Chain[0], c.Chain[0]) {
					b = c
					break
				}
			}
			if a == nil || b == nil {
				continue
			}
			for _, pc := range []string{"match-sha256", "match-sha512"} {
				for _, order := range []string{"pinned-first", "unpinned-first"} {
					v := netceptor.ReceptorVerifyFunc(tlscfg, a.pins(pc), exp, c09Mode(mode), c09VerifyType(role), env.log)
					seq := []*c09Cert{a, b, a, b}
					if order == "unpinned-first" {
						seq = []*c09Cert{b, a, b, a}
					}
					for i, c := range seq {
						err := v(c.Chain, nil)
						env.run.Eval(1)
						pinned := c == a
						w := map[string]any{"role": role, "mode": mode, "pin_class": pc, "order": order, "call": i + 1, "presented_is_the_pinned_certificate": pinned, "error": fmt.Sprint(err)}
						switch {
						case !pinned && err == nil:
							env.run.Violation("accept:pin:verifier-reuse:"+role+":"+mode, fmt.Sprintf("one verifier instance (pins = %s of certificate A), call %d of sequence %s: a trusted, valid but UNPINNED certificate was accepted", pc, i+1, order), w)
						case pinned && err != nil:
							env.run.Violation("control-refused:verifier-reuse:"+role+":"+mode, fmt.Sprintf("one verifier instance (pins = %s of certificate A), call %d of sequence %s: the pinned certificate itself was refused: %v", pc, i+1, order, err), w)
						}
					}
					env.run.Distinct(fmt.Sprintf("verifier-reuse|%s|%s|%s|%s", role, mode, pc, order))
				}
			}
		}
	}
}

// layer 1c: a verifier that stays installed for a long time (a TLS server configuration lives as long as
// its listener). Time passes and other peers connect in between: every call must be judged at the moment
// of the call and only with what that peer presented.
func (env *c09Env) verifierAging() {
	tlscfg := &tls.Config{RootCAs: env.pki.cas["caS"].pool(), ClientCAs: env.pki.cas["caC"].pool()}
	ca := env.pki.cas["caS"]
	v := netceptor.ReceptorVerifyFunc(tlscfg, nil, env.e, netceptor.ExpectedHostnameTypeReceptor, netceptor.VerifyServer, env.log)
	mk := func(nb, na time.Time) [][]byte {
		tpl := &x509.Certificate{SerialNumber: big.NewInt(env.pki.serial.Add(1)), Subject: pkix.Name{CommonName: "aging"},
			NotBefore: nb, NotAfter: na, KeyUsage: x509.KeyUsageDigitalSignature | x509.KeyUsageKeyEncipherment,
			ExtKeyUsage:     []x509.ExtKeyUsage{x509.ExtKeyUsageServerAuth},
			ExtraExtensions: []pkix.Extension{{Id: sanOID, Value: derSAN([]sanEntry{sanID(env.e)})}}}
		key := env.pki.leafKeys[0]
		der, err := x509.CreateCertificate(rand.Reader, tpl, ca.cert, &key.PublicKey, ca.key)
		if err != nil {
			panic(err)
		}
		return append([][]byte{der}, ca.extra...)
	}
	time.Sleep(1200 * time.Millisecond)
	now := time.Now()
	issuedLater := mk(now.Truncate(time.Second), now.Add(time.Hour))
	env.run.Eval(1)
	if err := v(issuedLater, nil); err != nil {
		env.run.Violation("control-refused:verifier-aging:issued-after-creation", fmt.Sprintf("a verifier created %v before a certificate was issued (NotBefore = time of issue) refuses that valid certificate: %v", time.Since(now.Add(-1200*time.Millisecond)).Round(time.Millisecond), err), nil)
	} else {
		env.run.Distinct("verifier-aging|issued-after-creation")
	}
	short := mk(now.Add(-time.Hour), now.Add(2*time.Second))
	env.run.Eval(1)
	if err := v(short, nil); err != nil {
		env.run.Count("aging_short_lived_control_refused", 1)
	} else {
		time.Sleep(time.Until(now.Add(3500 * time.Millisecond)))
		env.run.Eval(1)
		if err := v(short, nil); err == nil {
			env.run.Violation("accept:time:verifier-aging:expired-while-installed", "a certificate that expired 1.5 s ago is still accepted by a verifier that was created while it was valid", nil)
		} else {
			env.run.Distinct("verifier-aging|expired-while-installed")
		}
	}
	// intermediates presented by one peer must not help the next peer
	for _, c := range env.certs {
		if c.IssuerCA == nil || len(c.IssuerCA.extra) == 0 || !c.clean("server", "receptor", true, "none") {
			continue
		}
		v2 := netceptor.ReceptorVerifyFunc(tlscfg, nil, env.e, netceptor.ExpectedHostnameTypeReceptor, netceptor.VerifyServer, env.log)
		fresh := netceptor.ReceptorVerifyFunc(tlscfg, nil, env.e, netceptor.ExpectedHostnameTypeReceptor, netceptor.VerifyServer, env.log)
		bare := [][]byte{c.Chain[0]}
		if fresh(bare, nil) == nil {
			continue // the leaf verifies without its intermediate anyway: nothing to learn
		}
		env.run.Eval(2)
		if err := v2(c.Chain, nil); err != nil {
			env.run.Violation("control-refused:verifier-aging:chain-with-intermediate", fmt.Sprintf("a clean certificate presented together with its intermediate is refused: %v", err), nil)
			break
		}
		if err := v2(bare, nil); err == nil {
			env.run.Violation("accept:chain:verifier-aging:remembered-intermediate", "a leaf presented WITHOUT its intermediate is accepted by a verifier that had seen the intermediate from an earlier peer", nil)
		} else {
			env.run.Distinct("verifier-aging|intermediate-not-remembered")
		}
		break
	}
}

// layer 1d: one long-lived node hands out client configurations for the SAME profile and the SAME
// expected name in both name modes. Node ids default to host names, so a daemon asks for (profile P,
// "nodeb") once as the DNS name of a backend peer and once as the node id of a mesh stream (work submit,
// control connect); whatever was asked before, the configuration returned for a mode must verify the
// way that mode demands. Every returned configuration is used for real handshakes against servers
// whose certificates are right for one mode only.
type c09MixCert struct {
	class string
	cert  *c09Cert
}

// mixCert issues a trusted, valid server certificate carrying exactly the given DNS names and node ids.
func (env *c09Env) mixCert(class, expected string, dns, ids []string, idx int) *c09Cert {
	ca := env.pki.cas["caS"]
	c := &c09Cert{Attr: c09Attr{"caS", "valid", "both", class}, Expected: expected, IDs: ids, DNS: dns, Key: env.pki.leafKeys[idx%2], IssuerCA: ca}
	var entries []sanEntry
	for _, d := range dns {
		entries = append(entries, sanDNS(d))
	}
	for _, id := range ids {
		entries = append(entries, sanID(id))
	}
	nb, na := env.pki.window("valid")
	tpl := &x509.Certificate{SerialNumber: big.NewInt(env.pki.serial.Add(1)), Subject: pkix.Name{CommonName: "c09 mode mixing leaf"},
		NotBefore: nb, NotAfter: na, KeyUsage: x509.KeyUsageDigitalSignature | x509.KeyUsageKeyEncipherment,
		ExtKeyUsage:     []x509.ExtKeyUsage{x509.ExtKeyUsageClientAuth, x509.ExtKeyUsageServerAuth},
		ExtraExtensions: []pkix.Extension{{Id: sanOID, Value: derSAN(entries)}}}
	der, err := x509.CreateCertificate(rand.Reader, tpl, ca.cert, &c.Key.PublicKey, ca.key)
	if err != nil {
		panic(err)
	}
	if c.Cert, err = x509.ParseCertificate(der); err != nil {
		panic(err)
	}
	c.Chain = append([][]byte{der}, ca.extra...)
	return c
}

func (env *c09Env) modeMixing() {
	run := env.run
	t0 := time.Now()
	defer func() { run.Extra("mode_mixing_wall_s", float64(time.Since(t0).Milliseconds())/1000) }()
	c09Write("caS.pem", env.pki.cas["caS"].pem())
	newNode := func(id string) *netceptor.Netceptor {
		nc := netceptor.New(context.Background(), id)
		nc.Logger.SetOutput(io.Discard)
		return nc
	}
	// a profile is configured ONCE per node, the way the daemon does at start-up
	setProfile := func(nc *netceptor.Netceptor, profile string, v13 bool) error {
		tc := netceptor.TLSClientConfig{Name: profile, RootCAs: filepath.Join(c09Dir(), "caS.pem"), SkipReceptorNamesCheck: true, MinTLS13: v13}
		cfg, fp, err := tc.PrepareTLSClientConfig(nc)
		if err != nil {
			return err
		}
		return nc.SetClientTLSConfig(profile, cfg, fp)
	}
	long := newNode(fmt.Sprintf("c09-mix-node-%d", run.Seed))
	defer long.Shutdown()
	orders := []string{"dns-first", "receptor-first"}
	for i, order := range orders {
		if err := setProfile(long, "mix-"+order, i%2 == 1); err != nil {
			run.Inconclusive("C09 mode mixing: the client profile could not be configured: " + err.Error())
			return
		}
	}
	names := []string{env.e, env.o1, fmt.Sprintf("nodeb%d", run.Seed)}
	if !run.Quick() {
		names = append(names, env.o2, fmt.Sprintf("c09-host-%d.mesh.example", run.Seed), fmt.Sprintf("n%d", run.Seed))
	}
	rounds := run.Pick(3, 10) // alternations per (profile, name)
	other := "elsewhere.c09.example"
	// one decision: the configuration `cfg` (asked for `name` in `mode`) against a server presenting mc
	decide := func(cfg *tls.Config, mc c09MixCert, tls13 bool) (accepted, undecided bool, detail string) {
		maxV := uint16(tls.VersionTLS12)
		if tls13 {
			maxV = tls.VersionTLS13
		}
		scfg := &tls.Config{Certificates: []tls.Certificate{mc.cert.tlsCert()}, SessionTicketsDisabled: true, MinVersion: tls.VersionTLS12, MaxVersion: maxV}
		if cfg.MinVersion == tls.VersionTLS13 {
			scfg.MaxVersion = tls.VersionTLS13
		}
		cerr, serr, to := pipeHandshake(cfg, scfg)
		return cerr == nil, to, fmt.Sprintf("client: %v; server: %v", cerr, serr)
	}
	calls, handshakes := 0, 0
	reported := map[string]int{}
	for ni, name := range names {
		certs := []c09MixCert{
			{"both-names", env.mixCert("both", name, []string{name}, []string{name}, 0)},
			{"dns-name-without-node-id", env.mixCert("dns-only", name, []string{name}, nil, 1)},
			{"dns-name-with-other-node-id", env.mixCert("dns+other-id", name, []string{name}, []string{other}, 2)},
			{"node-id-without-dns-name", env.mixCert("id-expected", name, nil, []string{name}, 3)},
			{"node-id-with-other-dns-name", env.mixCert("id+other-dns", name, []string{other}, []string{name}, 4)},
			{"neither-name", env.mixCert("other", name, []string{other}, []string{other}, 5)},
		}
		// the harness's own expectation, from what it put into the certificate
		allowed := func(mode string, mc c09MixCert) bool { return mc.cert.conds("server", mode, true, name, nil).all() }
		// reference: what an instance that was only ever asked once says (a fresh node per mode)
		fresh := map[string]map[string]bool{}
		for _, mode := range []string{"dns", "receptor"} {
			fresh[mode] = map[string]bool{}
			nc := newNode(fmt.Sprintf("c09-mix-fresh-%d-%d-%s", run.Seed, ni, mode))
			if err := setProfile(nc, "mix", false); err != nil {
				nc.Shutdown()
				run.Inconclusive("C09 mode mixing: the client profile could not be configured: " + err.Error())
				return
			}
			cfg, err := nc.GetClientTLSConfig("mix", name, c09Mode(mode))
			if err != nil || cfg == nil {
				nc.Shutdown()
				run.Inconclusive(fmt.Sprintf("C09 mode mixing: a fresh node returns no client configuration: %v", err))
				return
			}
			for ci, mc := range certs {
				acc, undecided, detail := decide(cfg, mc, ci%2 == 0)
				run.Eval(1)
				handshakes++
				if undecided {
					run.Inconclusive("C09 mode mixing: handshake watchdog: " + detail)
					continue
				}
				fresh[mode][mc.class] = acc
				w := map[string]any{"expected_name": name, "requested_mode": mode, "certificate_dns_names": mc.cert.DNS, "certificate_node_ids": mc.cert.IDs, "observed": detail}
				switch {
				case acc && !allowed(mode, mc):
					run.Violation("reuse:mode-mixing:single-request:"+mc.class, fmt.Sprintf("a node asked ONCE for a client configuration (expected %s name %q) completed a handshake with a server whose trusted certificate has DNS names %v and node ids %v", mode, name, mc.cert.DNS, mc.cert.IDs), w)
				case !acc && mc.class == "both-names":
					run.Violation("control-refused:reuse:mode-mixing:single-request", fmt.Sprintf("a node asked once for a client configuration (expected %s name %q) refused a clean certificate carrying that name both as DNS name and as node id: %s", mode, name, detail), w)
				}
			}
			nc.Shutdown()
		}
		for _, order := range orders {
			profile := "mix-" + order
			seq := []string{"dns", "receptor"}
			if order == "receptor-first" {
				seq = []string{"receptor", "dns"}
			}
			var history []string
			for call := 0; call < 2*rounds; call++ {
				mode := seq[call%2]
				cfg, err := long.GetClientTLSConfig(profile, name, c09Mode(mode))
				calls++
				history = append(history, mode)
				if err != nil || cfg == nil {
					run.Eval(1)
					run.Violation("control-refused:reuse:mode-mixing:"+order, fmt.Sprintf("request %d (%s mode) for profile %q and name %q returned no configuration: %v", call+1, mode, profile, name, err), nil)
					continue
				}
				for ci, mc := range certs {
					acc, undecided, detail := decide(cfg, mc, (ci+call)%2 == 0)
					run.Eval(1)
					handshakes++
					if undecided {
						run.Inconclusive("C09 mode mixing: handshake watchdog: " + detail)
						continue
					}
					w := map[string]any{"profile": profile, "expected_name": name, "requests_so_far_for_this_profile_and_name": append([]string{}, history...), "requested_mode": mode,
						"certificate_dns_names": mc.cert.DNS, "certificate_node_ids": mc.cert.IDs, "certificate_class": mc.class,
						"a_node_asked_only_once_in_this_mode_accepts_it": fresh[mode][mc.class], "observed": detail}
					switch {
					case acc && !allowed(mode, mc):
						run.Count("mode_mixing_accepted_name_condition_false", 1)
						if reported[order+mc.class]++; reported[order+mc.class] > 2 {
							break // one witness per name is enough
						}
						run.Violation("reuse:mode-mixing:"+order+":"+mc.class,
							fmt.Sprintf("one node was asked for client configurations of profile %q and name %q in the modes %v; the configuration returned by request %d (%s mode) completed a handshake with a server whose trusted certificate has DNS names %v and node ids %v - it does not carry %q as %s (a node asked only in %s mode: accepted=%v)",
								profile, name, history, call+1, mode, mc.cert.DNS, mc.cert.IDs, name, map[string]string{"dns": "DNS name", "receptor": "receptor node id"}[mode], mode, fresh[mode][mc.class]), w)
					case !acc && mc.class == "both-names":
						run.Violation("control-refused:reuse:mode-mixing:"+order,
							fmt.Sprintf("one node was asked for client configurations of profile %q and name %q in the modes %v; the configuration returned by request %d (%s mode) refused a clean certificate carrying the name both as DNS name and as node id: %s", profile, name, history, call+1, mode, detail), w)
					case acc:
						run.Count("mode_mixing_accepted_name_condition_true", 1)
					case allowed(mode, mc) && fresh[mode][mc.class]:
						run.Count("mode_mixing_refused_what_a_fresh_node_accepts(stricter, tolerated)", 1)
					default:
						run.Count("mode_mixing_refused_name_condition_false", 1)
					}
					if !allowed(mode, mc) && call > 0 {
						// non-trivial: a certificate wrong for THIS mode, judged after the pair had been requested in the other mode
						run.Distinct(fmt.Sprintf("mode-mixing|%s|%s|%s|name%d", order, mode, mc.class, ni))
					}
				}
			}
		}
	}
	run.Count("mode_mixing_config_requests_on_one_node", int64(calls))
	run.Count("mode_mixing_handshakes", int64(handshakes))
	run.Sample(map[string]any{"layer": "reuse:mode-mixing", "names": names, "orders": orders, "alternations_per_profile_and_name": rounds,
		"certificate_classes": []string{"both-names", "dns-name-without-node-id", "dns-name-with-other-node-id", "node-id-without-dns-name", "node-id-with-other-dns-name", "neither-name"}})
}
