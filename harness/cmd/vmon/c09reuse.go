package main

import (
	"bytes"
	"crypto/tls"
	"fmt"

	"github.com/ansible/receptor/pkg/netceptor"
)

// layer 1b: one verifier instance serves several handshakes (a listener with pinned client
// certificates, a redialling dialer with a pinned server certificate). The function returned by
// ReceptorVerifyFunc is built ONCE per configuration and then called with a sequence of different
// peer certificates: each call must be judged on the certificate it was given.
func (env *c09Env) verifierReuse() {
	tlscfg := &tls.Config{RootCAs: env.pki.cas["caS"].pool(), ClientCAs: env.pki.cas["caC"].pool()}
	for _, role := range []string{"server", "client"} {
		for _, mode := range []string{"dns", "receptor"} {
			ne := c09NameExpected(role, mode)
			exp := env.e
			if !ne {
				exp = ""
			}
			// two different certificates that are acceptable apart from the pin
			var a, b *c09Cert
			for _, c := range env.certs {
				if !c.clean(role, mode, ne, "none") {
					continue
				}
				if a == nil {
					a = c
				} else if !bytes.Equal(a.Chain[0], c.Chain[0]) {
					b = c
					break
				}
			}
			if a == nil || b == nil {
				continue
			}
			for _, pc := range []string{"match-sha256", "match-sha512"} {
				for _, order := range []string{"pinned-first", "unpinned-first"} {
					v := netceptor.ReceptorVerifyFunc(tlscfg, a.pins(pc), exp, c09Mode(mode), c09VerifyType(role), env.log)
					seq := []*c09Cert{a, b, a, b}
					if order == "unpinned-first" {
						seq = []*c09Cert{b, a, b, a}
					}
					for i, c := range seq {
						err := v(c.Chain, nil)
						env.run.Eval(1)
						pinned := c == a
						w := map[string]any{"role": role, "mode": mode, "pin_class": pc, "order": order, "call": i + 1, "presented_is_the_pinned_certificate": pinned, "error": fmt.Sprint(err)}
						switch {
						case !pinned && err == nil:
							env.run.Violation("accept:pin:verifier-reuse:"+role+":"+mode, fmt.Sprintf("one verifier instance (pins = %s of certificate A), call %d of sequence %s: a trusted, valid but UNPINNED certificate was accepted", pc, i+1, order), w)
						case pinned && err != nil:
							env.run.Violation("control-refused:verifier-reuse:"+role+":"+mode, fmt.Sprintf("one verifier instance (pins = %s of certificate A), call %d of sequence %s: the pinned certificate itself was refused: %v", pc, i+1, order, err), w)
						}
					}
					env.run.Distinct(fmt.Sprintf("verifier-reuse|%s|%s|%s|%s", role, mode, pc, order))
				}
			}
		}
	}
}
