package main

import (
	"bytes"
	"crypto/rand"
	"crypto/tls"
	"crypto/x509"
	"crypto/x509/pkix"
	"fmt"
	"math/big"
	"time"

	"github.com/ansible/receptor/pkg/netceptor"
)

// layer 1b: one verifier instance serves several handshakes (a listener with pinned client
// certificates, a redialling dialer with a pinned server certificate). The function returned by
// ReceptorVerifyFunc is built ONCE per configuration and then called with a sequence of different
// peer certificates: each call must be judged on the certificate it was given.
func (env *c09Env) verifierReuse() {
	tlscfg := &tls.Config{RootCAs: env.pki.cas["caS"].pool(), ClientCAs: env.pki.cas["caC"].pool()}
	for _, role := range []string{"server", "client"} {
		for _, mode := range []string{"dns", "receptor"} {
			ne := c09NameExpected(role, mode)
			exp := env.e
			if !ne {
				exp = ""
			}
			// two different certificates that are acceptable apart from the pin
			var a, b *c09Cert
			for _, c := range env.certs {
				if !c.clean(role, mode, ne, "none") {
					continue
				}
				if a == nil {
					a = c
				} else if !bytes.Equal(a.Chain[0], c.Chain[0]) {
					b = c
					break
				}
			}
			if a == nil || b == nil {
				continue
			}
			for _, pc := range []string{"match-sha256", "match-sha512"} {
				for _, order := range []string{"pinned-first", "unpinned-first"} {
					v := netceptor.ReceptorVerifyFunc(tlscfg, a.pins(pc), exp, c09Mode(mode), c09VerifyType(role), env.log)
					seq := []*c09Cert{a, b, a, b}
					if order == "unpinned-first" {
						seq = []*c09Cert{b, a, b, a}
					}
					for i, c := range seq {
						err := v(c.Chain, nil)
						env.run.Eval(1)
						pinned := c == a
						w := map[string]any{"role": role, "mode": mode, "pin_class": pc, "order": order, "call": i + 1, "presented_is_the_pinned_certificate": pinned, "error": fmt.Sprint(err)}
						switch {
						case !pinned && err == nil:
							env.run.Violation("accept:pin:verifier-reuse:"+role+":"+mode, fmt.Sprintf("one verifier instance (pins = %s of certificate A), call %d of sequence %s: a trusted, valid but UNPINNED certificate was accepted", pc, i+1, order), w)
						case pinned && err != nil:
							env.run.Violation("control-refused:verifier-reuse:"+role+":"+mode, fmt.Sprintf("one verifier instance (pins = %s of certificate A), call %d of sequence %s: the pinned certificate itself was refused: %v", pc, i+1, order, err), w)
						}
					}
					env.run.Distinct(fmt.Sprintf("verifier-reuse|%s|%s|%s|%s", role, mode, pc, order))
				}
			}
		}
	}
}

// layer 1c: a verifier that stays installed for a long time (a TLS server configuration lives as long as
// its listener). Time passes and other peers connect in between: every call must be judged at the moment
// of the call and only with what that peer presented.
func (env *c09Env) verifierAging() {
	tlscfg := &tls.Config{RootCAs: env.pki.cas["caS"].pool(), ClientCAs: env.pki.cas["caC"].pool()}
	ca := env.pki.cas["caS"]
	v := netceptor.ReceptorVerifyFunc(tlscfg, nil, env.e, netceptor.ExpectedHostnameTypeReceptor, netceptor.VerifyServer, env.log)
	mk := func(nb, na time.Time) [][]byte {
		tpl := &x509.Certificate{SerialNumber: big.NewInt(env.pki.serial.Add(1)), Subject: pkix.Name{CommonName: "aging"},
			NotBefore: nb, NotAfter: na, KeyUsage: x509.KeyUsageDigitalSignature | x509.KeyUsageKeyEncipherment,
			ExtKeyUsage:     []x509.ExtKeyUsage{x509.ExtKeyUsageServerAuth},
			ExtraExtensions: []pkix.Extension{{Id: sanOID, Value: derSAN([]sanEntry{sanID(env.e)})}}}
		key := env.pki.leafKeys[0]
		der, err := x509.CreateCertificate(rand.Reader, tpl, ca.cert, &key.PublicKey, ca.key)
		if err != nil {
			panic(err)
		}
		return append([][]byte{der}, ca.extra...)
	}
	time.Sleep(1200 * time.Millisecond)
	now := time.Now()
	issuedLater := mk(now.Truncate(time.Second), now.Add(time.Hour))
	env.run.Eval(1)
	if err := v(issuedLater, nil); err != nil {
		env.run.Violation("control-refused:verifier-aging:issued-after-creation", fmt.Sprintf("a verifier created %v before a certificate was issued (NotBefore = time of issue) refuses that valid certificate: %v", time.Since(now.Add(-1200*time.Millisecond)).Round(time.Millisecond), err), nil)
	} else {
		env.run.Distinct("verifier-aging|issued-after-creation")
	}
	short := mk(now.Add(-time.Hour), now.Add(2*time.Second))
	env.run.Eval(1)
	if err := v(short, nil); err != nil {
		env.run.Count("aging_short_lived_control_refused", 1)
	} else {
		time.Sleep(time.Until(now.Add(3500 * time.Millisecond)))
		env.run.Eval(1)
		if err := v(short, nil); err == nil {
			env.run.Violation("accept:time:verifier-aging:expired-while-installed", "a certificate that expired 1.5 s ago is still accepted by a verifier that was created while it was valid", nil)
		} else {
			env.run.Distinct("verifier-aging|expired-while-installed")
		}
	}
	// intermediates presented by one peer must not help the next peer
	for _, c := range env.certs {
		if c.IssuerCA == nil || len(c.IssuerCA.extra) == 0 || !c.clean("server", "receptor", true, "none") {
			continue
		}
		v2 := netceptor.ReceptorVerifyFunc(tlscfg, nil, env.e, netceptor.ExpectedHostnameTypeReceptor, netceptor.VerifyServer, env.log)
		fresh := netceptor.ReceptorVerifyFunc(tlscfg, nil, env.e, netceptor.ExpectedHostnameTypeReceptor, netceptor.VerifyServer, env.log)
		bare := [][]byte{c.Chain[0]}
		if fresh(bare, nil) == nil {
			continue // the leaf verifies without its intermediate anyway: nothing to learn
		}
		env.run.Eval(2)
		if err := v2(c.Chain, nil); err != nil {
			env.run.Violation("control-refused:verifier-aging:chain-with-intermediate", fmt.Sprintf("a clean certificate presented together with its intermediate is refused: %v", err), nil)
			break
		}
		if err := v2(bare, nil); err == nil {
			env.run.Violation("accept:chain:verifier-aging:remembered-intermediate", "a leaf presented WITHOUT its intermediate is accepted by a verifier that had seen the intermediate from an earlier peer", nil)
		} else {
			env.run.Distinct("verifier-aging|intermediate-not-remembered")
		}
		break
	}
}
