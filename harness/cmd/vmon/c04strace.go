package main

import "fmt"

// startStrace starts the local daemon under strace with a syscall-level kill injector (thorough tier).
func (t *c04Trial) startStrace() error { return fmt.Errorf("strace injector not built yet") }
