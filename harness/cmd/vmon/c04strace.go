package main

import (
	"fmt"
	"time"

	"verif/harness/internal/ctl"
)

// startStrace starts the local daemon under `strace -f` with a syscall-level injector: the N-th
// invocation (per thread) of the chosen file-system syscall in the daemon or in any runner process
// delivers SIGKILL to that process on entry to the syscall, i.e. between the previous file-system
// step and this one - also at places that carry no hook. A watchdog notices the daemon's death (its
// control socket stops answering) and ends the wrapper, so that the trial continues with the restart.
func (t *c04Trial) startStrace() error {
	sc := t.sp.Strace
	t.L.Wrap = []string{"strace", "-f", "-qq", "-o", "/dev/null", "-e", "trace=" + sc, "-e", fmt.Sprintf("inject=%s:signal=SIGKILL:when=%d", sc, t.sp.StraceN)}
	err := t.L.Start("VERIF_POINT_LOG=" + t.ptLog)
	if err != nil {
		return err
	}
	t.straceStop, t.straceDone = make(chan struct{}), make(chan struct{})
	go func() {
		defer close(t.straceDone)
		fails := 0
		for t.L.Alive() {
			select {
			case <-t.straceStop:
				return
			default:
			}
			c, derr := ctl.DialUnix(t.L.Sock(), time.Second)
			if derr == nil {
				c.Close()
				fails = 0
			} else {
				fails++
			}
			if fails >= 4 {
				select {
				case <-t.straceStop:
					return
				default:
				}
				t.straceKilledDaemon.Store(true)
				t.L.Kill()
				return
			}
			select {
			case <-t.straceStop:
				return
			case <-time.After(150 * time.Millisecond):
			}
		}
	}()
	return nil
}
