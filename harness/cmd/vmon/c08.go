package main

import (
	"context"
	"encoding/json"
	"errors"
	"fmt"
	"io"
	"math/rand"
	"net"
	"os"
	"path/filepath"
	"regexp"
	"sort"
	"strconv"
	"strings"
	"sync"
	"time"

	"verif/harness/internal/child"
	"verif/harness/internal/ctl"
	"verif/harness/internal/ev"

	"github.com/ansible/receptor/pkg/backends"
	"github.com/ansible/receptor/pkg/netceptor"
)

// C08 — no control-service input can crash or wedge a node; sessions are isolated.
//
// Phase 1 (attribution-exact): S daemons, ONE session each; every generated input runs alone
// on its daemon, followed by probes on the same and on a fresh session. Phase 2 (isolation):
// one daemon, W concurrent sessions (unix / tcp / mesh) run the same inputs mixed; inputs that
// already violated in phase 1 are left out so that the concurrent phase is not killed by
// them over and over. A failure in phase 2 is attributed by re-running the in-flight inputs
// singly against fresh daemons.

func init() { register("C08", runC08) }

const (
	c08ProbeWait   = 10 * time.Second // one probe attempt
	c08ProbeTries  = 3
	c08FirstWait   = 10 * time.Second // silence after which the fresh-session probes start
	c08ReplyWait   = 30 * time.Second // total wait for the first reply line
	c08HarnessWait = 30 * time.Second // harness-owned fixture commands
)

// ---------------------------------------------------------------- node = daemon + harness-side state

type c08Node struct {
	name string
	id   string
	dir  string
	d    *ctl.Daemon // use D()

	dMu      sync.RWMutex
	boots    int
	wantMesh bool
	meshMu   sync.Mutex
	mesh     *netceptor.Netceptor

	finMu, runMu sync.Mutex // creation of the shared fixtures
	mu           sync.Mutex // small state below
	fin, run     string
	rel          string
	released     map[string]bool
	statusTpl    []byte
	diskN        int

	logMu sync.Mutex
	logf  *os.File
}

func c08NewNode(base, name, id string, wantMesh bool) (*c08Node, error) {
	dir := filepath.Join(base, name)
	n := &c08Node{name: name, id: id, dir: dir, released: map[string]bool{}, wantMesh: wantMesh}
	_ = os.MkdirAll(dir, 0o755)
	f, err := os.OpenFile(filepath.Join(dir, "inputs.log"), os.O_CREATE|os.O_APPEND|os.O_WRONLY, 0o644)
	if err != nil {
		return nil, err
	}
	n.logf = f
	if err := n.boot(); err != nil {
		return nil, err
	}
	go func() { _, _ = n.ensureFin() }() // shared fixtures are prepared while the first cases run
	go func() { _, _ = n.ensureRun() }()
	return n, nil
}

// D returns the current daemon process handle (replaced by boot on every restart).
func (n *c08Node) D() *ctl.Daemon {
	n.dMu.RLock()
	defer n.dMu.RUnlock()
	return n.d
}

// boot starts a daemon process on the node's directory with FRESH ports (a port that was free
// when the previous process was started can have been taken by someone else meanwhile), checks
// that all three listeners are really up, and (re)creates the harness's mesh node.
func (n *c08Node) boot() error {
	var err error
	for try := 0; try < 6; try++ {
		if old := n.D(); old != nil {
			old.Kill()
			if of := old.OutFile(); of != "" {
				n.boots++
				_ = os.Rename(of, filepath.Join(n.dir, fmt.Sprintf("previous-%d.out", n.boots)))
			}
		}
		d := ctl.NewDaemon(ctl.Cfg{ID: n.id, Dir: n.dir, TCPCtl: true, Listen: true, Work: []ctl.WorkCmd{genWork()}, LogLevel: "error", IgnoreSIGINT: len(n.id) > 0 && (n.id[len(n.id)-1]-'0')%2 == 1})
		n.dMu.Lock()
		n.d = d
		n.dMu.Unlock()
		if err = d.Start(); err == nil {
			err = c08Stable(d)
		}
		if err == nil {
			break
		}
		d.Kill()
		time.Sleep(300 * time.Millisecond)
	}
	if err != nil {
		return err
	}
	if n.wantMesh {
		n.meshMu.Lock()
		if n.mesh != nil {
			n.mesh.Shutdown()
			n.mesh = nil
		}
		m := netceptor.New(context.Background(), "h-"+n.id)
		b, berr := backends.NewTCPDialer(fmt.Sprintf("127.0.0.1:%d", n.D().ListenPort), true, nil, m.Logger)
		if berr == nil {
			berr = m.AddBackend(b)
		}
		if berr == nil {
			n.mesh = m
		}
		n.meshMu.Unlock()
	}
	return nil
}

// c08Stable waits until the TCP control listener greets and the backend listener accepts.
func c08Stable(d *ctl.Daemon) error {
	deadline := time.Now().Add(30 * time.Second)
	var last error
	for time.Now().Before(deadline) {
		if !d.Alive() {
			return fmt.Errorf("daemon exited right after start-up: %s", c08Trunc(d.OutTail(300), 300))
		}
		c, err := ctl.DialTCP(fmt.Sprintf("127.0.0.1:%d", d.CtlPort), 5*time.Second)
		if err == nil {
			c.Close()
			bc, err2 := net.DialTimeout("tcp", fmt.Sprintf("127.0.0.1:%d", d.ListenPort), 5*time.Second)
			if err2 == nil {
				bc.Close()
				time.Sleep(100 * time.Millisecond)
				if d.Alive() {
					return nil
				}
			}
			err = err2
		}
		last = err
		time.Sleep(100 * time.Millisecond)
	}
	return fmt.Errorf("listeners did not come up: %v", last)
}

func (n *c08Node) meshNode() *netceptor.Netceptor {
	n.meshMu.Lock()
	defer n.meshMu.Unlock()
	return n.mesh
}

func (n *c08Node) logLine(s string) {
	n.logMu.Lock()
	_, _ = n.logf.WriteString(s + "\n")
	n.logMu.Unlock()
}

func (n *c08Node) stop() {
	n.D().Kill()
	if m := n.meshNode(); m != nil {
		m.Shutdown()
	}
	c08KillStrays(n.dir)
}

func (n *c08Node) isUnknown(id string) bool {
	if c08UnknownRe.MatchString(id) {
		return true
	}
	n.mu.Lock()
	defer n.mu.Unlock()
	return n.released[id]
}

// open opens a control session of the given kind; a mesh session falls back to unix when the
// harness node has no route (yet) — the actual kind is returned.
func (n *c08Node) open(kind string) (*ctl.Client, string, error) {
	switch kind {
	case "tcp":
		c, err := ctl.DialTCP(fmt.Sprintf("127.0.0.1:%d", n.D().CtlPort), c08ProbeWait)
		return c, "tcp", err
	case "mesh":
		if m := n.meshNode(); m != nil {
			deadline := time.Now().Add(15 * time.Second)
			for time.Now().Before(deadline) && n.D().Alive() {
				ctx, cancel := context.WithTimeout(context.Background(), 5*time.Second)
				conn, err := m.DialContext(ctx, n.id, "control", nil)
				cancel()
				if err == nil {
					c, err := ctl.FromConn(conn, "mesh", c08ProbeWait)
					if err == nil {
						return c, "mesh", nil
					}
				}
				time.Sleep(200 * time.Millisecond)
			}
		}
	}
	c, err := ctl.DialUnix(n.D().Sock(), c08ProbeWait)
	return c, "unix", err
}

// c08KillStrays kills every process that mentions dir on its command line (daemons, command
// runners) or whose working directory / stdout lies under dir (the workgen producers, which
// outlive a killed runner).
func c08KillStrays(dir string) {
	ctl.KillStrays(dir)
	ents, _ := os.ReadDir("/proc")
	self := os.Getpid()
	for _, e := range ents {
		pid, err := strconv.Atoi(e.Name())
		if err != nil || pid == self || pid <= 1 {
			continue
		}
		for _, l := range []string{"cwd", "fd/1"} {
			if t, err := os.Readlink(filepath.Join("/proc", e.Name(), l)); err == nil && strings.HasPrefix(t, dir) {
				if p, err := os.FindProcess(pid); err == nil {
					_ = p.Kill()
				}
				break
			}
		}
	}
}

// ---------------------------------------------------------------- line reader that survives timeouts

type c08Reader struct {
	c       *ctl.Client
	partial []byte
}

var errC08Timeout = errors.New("timeout")

// line reads one line within d. A timeout keeps what was read so far for the next call.
func (r *c08Reader) line(d time.Duration) (string, error) {
	deadline := time.Now().Add(d)
	for {
		_ = r.c.C.SetReadDeadline(deadline)
		s, err := r.c.R.ReadString('\n')
		r.partial = append(r.partial, s...)
		if err == nil {
			out := strings.TrimRight(string(r.partial), "\n")
			r.partial = nil
			_ = r.c.C.SetReadDeadline(time.Time{})
			return out, nil
		}
		_ = r.c.C.SetReadDeadline(time.Time{})
		var ne net.Error
		if errors.As(err, &ne) && ne.Timeout() {
			return "", errC08Timeout
		}
		if strings.Contains(err.Error(), "timeout") || strings.Contains(err.Error(), "deadline") {
			return "", errC08Timeout
		}
		out := string(r.partial)
		r.partial = nil
		return out, err
	}
}

// drain collects lines until the session has been quiet for `quiet`.
func (r *c08Reader) drain(quiet time.Duration, max int) []string {
	var out []string
	for len(out) < max {
		l, err := r.line(quiet)
		if err != nil {
			break
		}
		out = append(out, l)
	}
	return out
}

func c08Trunc(s string, n int) string {
	if len(s) > n {
		return fmt.Sprintf("%s...(%d bytes)", s[:n], len(s))
	}
	return s
}

// ---------------------------------------------------------------- probes

func c08ProbeLine(probe, node string) string {
	switch probe {
	case "status":
		return "status"
	case "ping":
		return "ping " + node
	}
	return "work list"
}

func c08ProbeMatch(probe, node, line string) bool {
	if !strings.HasPrefix(line, "{") {
		return false
	}
	switch probe {
	case "status":
		var m map[string]any
		return json.Unmarshal([]byte(line), &m) == nil && m["NodeID"] == node
	case "ping":
		var m map[string]any
		return json.Unmarshal([]byte(line), &m) == nil && m["Success"] == true
	}
	_, err := ctl.ParseList(line)
	return err == nil
}

// c08ProbeOnce sends one probe and reads until a matching answer arrives (stale lines of the
// previous request — e.g. the second ERROR line after malformed JSON — are skipped).
func c08ProbeOnce(r *c08Reader, probe, node string) (bool, []string, error) {
	if err := r.c.Send([]byte(c08ProbeLine(probe, node)+"\n"), c08ProbeWait); err != nil {
		return false, nil, err
	}
	deadline := time.Now().Add(c08ProbeWait)
	var seen []string
	for len(seen) < 12 {
		left := time.Until(deadline)
		if left <= 0 {
			return false, seen, errC08Timeout
		}
		l, err := r.line(left)
		if err != nil {
			return false, seen, err
		}
		if c08ProbeMatch(probe, node, l) {
			return true, seen, nil
		}
		seen = append(seen, c08Trunc(l, 200))
	}
	return false, seen, fmt.Errorf("no matching answer in 12 lines")
}

var c08Probes = []string{"worklist", "status", "ping"}

type c08ProbeFail struct {
	Probe  string
	Detail string
	Closed bool // the (same) session was closed by the daemon
}

// probeSame runs the probe set on an open session.
func (n *c08Node) probeSame(r *c08Reader) *c08ProbeFail {
	for _, p := range c08Probes {
		okp := false
		var last string
		for a := 0; a < c08ProbeTries && n.D().Alive(); a++ {
			ok, seen, err := c08ProbeOnce(r, p, n.id)
			if ok {
				okp = true
				break
			}
			last = fmt.Sprintf("attempt %d: err=%v lines=%q", a+1, err, seen)
			if err != nil && err != errC08Timeout {
				return &c08ProbeFail{Probe: p, Detail: last, Closed: true}
			}
		}
		if !okp {
			return &c08ProbeFail{Probe: p, Detail: last}
		}
	}
	return nil
}

// probeFresh runs the probe set on fresh sessions (kind unix or tcp; mesh when asked).
func (n *c08Node) probeFresh(kind string) *c08ProbeFail {
	var r *c08Reader
	defer func() {
		if r != nil {
			r.c.Close()
		}
	}()
	for _, p := range c08Probes {
		okp := false
		failName := p
		var last string
		for a := 0; a < c08ProbeTries && n.D().Alive(); a++ {
			if r == nil {
				t0 := time.Now()
				c, _, err := n.open(kind)
				if err != nil {
					last = fmt.Sprintf("attempt %d: fresh %s session: %v", a+1, kind, err)
					failName = "connect"
					if w := c08ProbeWait - time.Since(t0); w > 0 && n.D().Alive() {
						time.Sleep(minDur(w, time.Second))
					}
					continue
				}
				r = &c08Reader{c: c}
			}
			failName = p
			ok, seen, err := c08ProbeOnce(r, p, n.id)
			if ok {
				okp = true
				break
			}
			last = fmt.Sprintf("attempt %d: err=%v lines=%q", a+1, err, seen)
			r.c.Close()
			r = nil
		}
		if !okp {
			return &c08ProbeFail{Probe: failName, Detail: last}
		}
	}
	return nil
}

func minDur(a, b time.Duration) time.Duration {
	if a < b {
		return a
	}
	return b
}

// ---------------------------------------------------------------- fixtures (harness-owned, always on fresh unix sessions)

func (n *c08Node) hLine(line string) (string, error) {
	c, err := ctl.DialUnix(n.D().Sock(), c08HarnessWait)
	if err != nil {
		return "", err
	}
	defer c.Close()
	return c.Line(line, c08HarnessWait)
}

func (n *c08Node) submitSpec(spec GenSpec) (string, error) {
	c, err := ctl.DialUnix(n.D().Sock(), c08HarnessWait)
	if err != nil {
		return "", err
	}
	defer c.Close()
	pl, _ := json.Marshal(spec)
	r := c.Submit("work submit "+n.id+" gen", pl, c08HarnessWait)
	if r.Err != nil {
		return "", r.Err
	}
	if r.UnitID == "" || !strings.HasPrefix(r.Final, "{") {
		return "", fmt.Errorf("submit refused: ack=%q final=%q", r.Ack, r.Final)
	}
	return r.UnitID, nil
}

func (n *c08Node) unitStatus(id string) (*ctl.Status, error) {
	l, err := n.hLine("work status " + id)
	if err != nil {
		return nil, err
	}
	return ctl.ParseStatus(l)
}

func c08LongSpec() GenSpec {
	ch := make([]GenChunk, 0, 2400)
	for i := 0; i < 2400; i++ {
		ch = append(ch, GenChunk{N: 100, PauseMs: 500})
	}
	return GenSpec{Seed: 8, Chunks: ch}
}

const c08FinSize = 3000

func (n *c08Node) ensureFin() (string, error) {
	n.finMu.Lock()
	defer n.finMu.Unlock()
	n.mu.Lock()
	cur := n.fin
	n.mu.Unlock()
	if cur != "" {
		if st, err := n.unitStatus(cur); err == nil && st.State == 2 {
			return cur, nil
		}
	}
	id, err := n.submitSpec(GenSpec{Seed: 7, Chunks: []GenChunk{{N: 2000}, {N: 1000}}})
	if err != nil {
		return "", err
	}
	deadline := time.Now().Add(180 * time.Second)
	for time.Now().Before(deadline) {
		st, err := n.unitStatus(id)
		if err != nil {
			return "", err
		}
		if st.State == 2 {
			n.mu.Lock()
			n.fin = id
			if b, err := os.ReadFile(filepath.Join(n.D().DataDir(), id, "status")); err == nil && len(b) > 0 {
				n.statusTpl = b
			}
			n.mu.Unlock()
			return id, nil
		}
		if st.State > 2 {
			return "", fmt.Errorf("fixture unit %s ended in state %d: %s", id, st.State, st.Detail)
		}
		time.Sleep(100 * time.Millisecond)
	}
	return "", fmt.Errorf("fixture unit %s did not finish", id)
}

func (n *c08Node) ensureRun() (string, error) {
	n.runMu.Lock()
	defer n.runMu.Unlock()
	n.mu.Lock()
	cur := n.run
	n.mu.Unlock()
	if cur != "" {
		if st, err := n.unitStatus(cur); err == nil && st.State == 1 && st.StdoutSize > 0 {
			return cur, nil
		}
	}
	id, err := n.submitSpec(c08LongSpec())
	if err != nil {
		return "", err
	}
	deadline := time.Now().Add(180 * time.Second)
	for time.Now().Before(deadline) {
		st, err := n.unitStatus(id)
		if err != nil {
			return "", err
		}
		if st.State == 1 && st.StdoutSize > 0 {
			n.mu.Lock()
			n.run = id
			n.mu.Unlock()
			return id, nil
		}
		if st.State > 1 {
			return "", fmt.Errorf("long-running fixture unit %s ended in state %d: %s", id, st.State, st.Detail)
		}
		time.Sleep(100 * time.Millisecond)
	}
	return "", fmt.Errorf("long-running fixture unit %s did not start", id)
}

func (n *c08Node) newTmp(running bool) (string, error) {
	if running {
		return n.submitSpec(c08LongSpec())
	}
	return n.submitSpec(GenSpec{Seed: 9, Chunks: []GenChunk{{N: 10}}})
}

func (n *c08Node) ensureRel() (string, error) {
	n.mu.Lock()
	if n.rel != "" {
		id := n.rel
		n.mu.Unlock()
		return id, nil
	}
	n.mu.Unlock()
	id, err := n.newTmp(false)
	if err != nil {
		return "", err
	}
	l, err := n.hLine("work release " + id)
	if err != nil {
		return "", err
	}
	if !strings.Contains(l, `"released"`) {
		return "", fmt.Errorf("release of fixture unit answered %q", l)
	}
	n.mu.Lock()
	n.rel = id
	n.released[id] = true
	n.mu.Unlock()
	return id, nil
}

// newDisk creates a unit directory behind the daemon's back.
func (n *c08Node) newDisk(kind byte) (string, error) {
	n.mu.Lock()
	n.diskN++
	k := n.diskN
	tpl := n.statusTpl
	n.mu.Unlock()
	id := fmt.Sprintf("dk%c%05d", kind, k)
	p := filepath.Join(n.D().DataDir(), id)
	_ = os.MkdirAll(n.D().DataDir(), 0o700)
	if kind == 'f' {
		return id, os.WriteFile(p, []byte("not a directory\n"), 0o600)
	}
	if err := os.MkdirAll(p, 0o700); err != nil {
		return "", err
	}
	switch kind {
	case 'v':
		if len(tpl) == 0 {
			return "", fmt.Errorf("no status template")
		}
		if err := os.WriteFile(filepath.Join(p, "status"), tpl, 0o600); err != nil {
			return "", err
		}
		return id, os.WriteFile(filepath.Join(p, "stdout"), []byte("on-disk unit output\n"), 0o600)
	case 'e':
		return id, os.WriteFile(filepath.Join(p, "status"), nil, 0o600)
	case 'g':
		return id, os.WriteFile(filepath.Join(p, "status"), []byte("\x00\xffthis is not a status record{{{\n"), 0o600)
	}
	return id, nil // 'n': no status file
}

type c08Resolved struct {
	line  []byte
	units []string // to force-release afterwards
	disks []string // ids created on disk
}

var c08RepRe = regexp.MustCompile(`(?s)@REP:(\d+):([^@]*)@`)

func (n *c08Node) resolve(tpl string) (*c08Resolved, error) {
	res := &c08Resolved{}
	s := tpl
	var err error
	sub := func(ph string, get func() (string, error)) {
		if err != nil || !strings.Contains(s, ph) {
			return
		}
		var id string
		if id, err = get(); err == nil {
			s = strings.ReplaceAll(s, ph, id)
		}
	}
	needV := strings.Contains(s, "@DISKV@")
	if needV {
		if _, err = n.ensureFin(); err != nil {
			return res, err
		}
	}
	sub("@FIN@", n.ensureFin)
	sub("@RUN@", n.ensureRun)
	sub("@REL@", n.ensureRel)
	sub("@TMP@", func() (string, error) {
		id, e := n.newTmp(false)
		if e == nil {
			res.units = append(res.units, id)
		}
		return id, e
	})
	sub("@TMPRUN@", func() (string, error) {
		id, e := n.newTmp(true)
		if e == nil {
			res.units = append(res.units, id)
		}
		return id, e
	})
	for _, k := range []byte("vegnf") {
		k := k
		sub("@DISK"+strings.ToUpper(string(k))+"@", func() (string, error) {
			id, e := n.newDisk(k)
			if e == nil {
				res.disks = append(res.disks, id)
			}
			return id, e
		})
	}
	if err != nil {
		return res, err
	}
	s = strings.ReplaceAll(s, "@NODE@", n.id)
	s = c08RepRe.ReplaceAllStringFunc(s, func(m string) string {
		sm := c08RepRe.FindStringSubmatch(m)
		k, _ := strconv.Atoi(sm[1])
		return strings.Repeat(sm[2], k)
	})
	res.line = []byte(s)
	return res, nil
}

// cleanup releases what the case created (best effort; answers are not judged here).
func (n *c08Node) cleanup(res *c08Resolved, extraUnits []string) {
	if !n.D().Alive() {
		for _, id := range res.disks {
			_ = os.RemoveAll(filepath.Join(n.D().DataDir(), id))
		}
		return
	}
	for _, id := range append(append([]string{}, res.units...), extraUnits...) {
		if _, err := os.Stat(filepath.Join(n.D().DataDir(), id)); err == nil {
			_, _ = n.hLine("work force-release " + id)
		}
	}
	for _, id := range res.disks {
		p := filepath.Join(n.D().DataDir(), id)
		if fi, err := os.Stat(p); err == nil {
			if fi.IsDir() {
				_, _ = n.hLine("work force-release " + id)
			}
			_ = os.RemoveAll(p)
		}
	}
}

// ---------------------------------------------------------------- executing one case

type c08Outcome struct {
	In       *c08Input  `json:"input"`
	Node     string     `json:"daemon"`
	Kind     string     `json:"kind"`
	Status   string     `json:"status"` // ok crash wedge session-wedge no-error-reply no-reply bad-answer session-closed inconclusive
	Probe    string     `json:"probe,omitempty"`
	Detail   string     `json:"detail,omitempty"`
	Line     string     `json:"line,omitempty"`
	Reply    string     `json:"reply,omitempty"`
	More     []string   `json:"more_lines,omitempty"`
	Verdict  c08Verdict `json:"classifier"`
	Answered bool       `json:"answered"`
	Phase    int        `json:"phase"`
	Ms       int64      `json:"ms"`
	Dump     string     `json:"goroutines,omitempty"`
	Fatal    string     `json:"fatal,omitempty"`
	Top      string     `json:"top_frame,omitempty"`
}

type c08Worker struct {
	n     *c08Node
	kind  string
	s     *c08Reader
	skind string
	used  int
	limit int
	rng   *rand.Rand
	fresh int
}

func (w *c08Worker) dropSession() {
	if w.s != nil {
		w.s.c.Close()
		w.s = nil
	}
}

func (w *c08Worker) session() (*c08Reader, error) {
	if w.s != nil {
		return w.s, nil
	}
	c, k, err := w.n.open(w.kind)
	if err != nil {
		return nil, err
	}
	w.s = &c08Reader{c: c}
	w.skind = k
	w.used = 0
	w.limit = 1 + w.rng.Intn(12)
	return w.s, nil
}

func (w *c08Worker) freshKind() string {
	w.fresh++
	if w.fresh%16 == 0 && w.kind == "mesh" {
		return "mesh"
	}
	if w.fresh%2 == 0 {
		return "tcp"
	}
	return "unix"
}

// dead reports whether the daemon has exited (giving a dying process a moment).
func (w *c08Worker) dead() bool {
	if !w.n.D().Alive() {
		return true
	}
	return false
}

func (w *c08Worker) deadSoon() bool {
	done := w.n.D().Done()
	if done == nil {
		return true
	}
	select {
	case <-done:
		return true
	case <-time.After(2 * time.Second):
	}
	// a panicking Go process prints its traceback before it exits; under load that takes a while
	if b, err := os.ReadFile(w.n.D().OutFile()); err == nil && (strings.Contains(string(b), "\npanic: ") || strings.Contains(string(b), "\nfatal error: ") || strings.HasPrefix(string(b), "panic: ")) {
		select {
		case <-done:
		case <-time.After(30 * time.Second):
		}
		return true
	}
	return !w.n.D().Alive()
}

func c08Send(c *ctl.Client, b []byte, chunk int) error {
	to := 30*time.Second + time.Duration(len(b)>>16)*6*time.Second // the daemon reads request lines byte by byte
	if chunk <= 0 {
		return c.Send(b, to)
	}
	for i := 0; i < len(b); i += chunk {
		e := i + chunk
		if e > len(b) {
			e = len(b)
		}
		if err := c.Send(b[i:e], to); err != nil {
			return err
		}
		time.Sleep(time.Millisecond)
	}
	return nil
}

var c08AckRe = regexp.MustCompile(`^Work unit created with ID ([a-zA-Z0-9]+)\. Send stdin data and EOF\.$`)

func c08Shape(well, node, line string) bool {
	var m map[string]any
	isObj := strings.HasPrefix(line, "{") && json.Unmarshal([]byte(line), &m) == nil
	switch well {
	case "any":
		return line != ""
	case "json":
		return isObj
	case "status":
		return isObj && m["NodeID"] == node
	case "ping":
		return isObj && m["Success"] == true
	case "pingfail":
		return isObj && m["Success"] == false
	case "list":
		_, err := ctl.ParseList(line)
		return err == nil
	case "unit":
		_, err := ctl.ParseStatus(line)
		return err == nil
	}
	return true
}

func (w *c08Worker) run(in *c08Input, phase int) *c08Outcome {
	var out *c08Outcome
	t0 := time.Now()
	defer func() { out.Ms = time.Since(t0).Milliseconds() }()
	if in.Mode == "script" {
		out = w.runScript(in)
	} else {
		out = w.runLine(in)
	}
	out.Phase = phase
	out.Node = w.n.name
	if out.Status != "ok" && out.Status != "inconclusive" || w.dead() {
		// anything going wrong while the daemon is dying is the crash, not the symptom
		if w.deadSoon() {
			out.Status = "crash"
		}
	}
	w.n.logLine(fmt.Sprintf("END %d %s %s", in.Idx, out.Status, c08Trunc(out.Detail, 200)))
	return out
}

func (w *c08Worker) runLine(in *c08Input) *c08Outcome {
	n := w.n
	out := &c08Outcome{In: in, Kind: w.kind, Status: "ok"}
	res, err := n.resolve(in.Raw)
	if err != nil {
		out.Status, out.Detail = "inconclusive", "fixture: "+err.Error()
		n.cleanup(res, nil)
		return out
	}
	var extraUnits []string
	defer func() { n.cleanup(res, extraUnits) }()
	v := c08Judge(res.line, n.isUnknown)
	if in.After != "" {
		v.Invalid = false // a fragment followed by a (half-)close is not a complete request line: not judged
	}
	out.Verdict = v
	out.Line = fmt.Sprintf("%q", c08Trunc(string(res.line), 300))
	if len(res.line) > 2<<20 && w.kind == "mesh" {
		w.dropSession()
		c, k, err := n.open("unix")
		if err == nil {
			w.s, w.skind, w.used, w.limit = &c08Reader{c: c}, k, 0, 1
		}
	}
	s, err := w.session()
	if err != nil {
		out.Status, out.Detail = "inconclusive", "cannot open a session: "+err.Error()
		if pf := n.probeFresh("unix"); pf != nil {
			out.Status, out.Probe, out.Detail = "wedge", pf.Probe, "no new session could be opened; "+pf.Detail
		}
		return out
	}
	out.Kind = w.skind
	n.logLine(fmt.Sprintf("BEGIN %d %s kind=%s used=%d mut=%q line=%s", in.Idx, in.Mode, w.skind, w.used, in.Mut, out.Line))
	w.used++
	payload := append(append([]byte{}, res.line...), in.NL...)
	if err := c08Send(s.c, payload, in.Chunk); err != nil {
		w.dropSession()
		if w.deadSoon() {
			out.Status, out.Detail = "crash", "write failed: "+err.Error()
			return out
		}
		out.Status, out.Detail = "session-closed", "the daemon closed the session while the request was being written: "+err.Error()
		if w.skind == "mesh" {
			out.Status = "inconclusive"
		}
		return out
	}
	consumed := false
	switch in.After {
	case "close":
		w.dropSession()
		if pf := n.probeFresh(w.freshKind()); pf != nil {
			out.Status, out.Probe, out.Detail = "wedge", pf.Probe, pf.Detail
		}
		return out
	case "halfclose":
		_ = s.c.HalfClose()
		consumed = true
	}
	total := c08ReplyWait + time.Duration(len(payload)>>16)*6*time.Second // request lines are read byte by byte
	var reply string
	if v.Blank || len(payload) == 0 {
		// not a request: a reply is optional
		if l, err := s.line(150 * time.Millisecond); err == nil {
			reply = l
			out.Answered = true
		}
	} else {
		l, err := s.line(c08FirstWait)
		if err == errC08Timeout {
			// silence: is the daemon still serving others?
			if pf := n.probeFresh(w.freshKind()); pf != nil {
				out.Status, out.Probe, out.Detail = "wedge", pf.Probe, "no reply to the request within 10s and then: "+pf.Detail
				w.dropSession()
				return out
			}
			l, err = s.line(total - c08FirstWait)
		}
		switch {
		case err == nil:
			reply = l
			out.Answered = true
		case err == errC08Timeout:
			// A reply that is merely late (a loaded machine: `work cancel` waits for a runner process to exit)
			// is not a verdict: wait much longer, and only a request that stays unanswered is judged.
			if l2, err2 := s.line(120 * time.Second); err2 == nil {
				_ = l2
				w.dropSession()
				out.Status, out.Detail = "inconclusive", fmt.Sprintf("the reply arrived only after more than %v", total)
				return out
			}
			total += 120 * time.Second
			w.dropSession()
			out.Detail = fmt.Sprintf("no reply line within %v (other sessions are served)", total)
			if len(payload) > 1<<16 {
				out.Status = "inconclusive" // watchdog on an over-long line: not a verdict
			} else if v.Invalid {
				out.Status = "no-error-reply"
			} else if in.After == "" {
				out.Status = "no-reply"
			}
			return out
		default:
			// EOF / reset before any reply
			w.dropSession()
			if w.deadSoon() {
				out.Status, out.Detail = "crash", "session ended without a reply: "+err.Error()
				return out
			}
			if in.After == "halfclose" {
				// unterminated line + half-close: whether the fragment counts as a request is not judged
				if pf := n.probeFresh(w.freshKind()); pf != nil {
					out.Status, out.Probe, out.Detail = "wedge", pf.Probe, pf.Detail
				}
				return out
			}
			out.Status, out.Detail = "session-closed", fmt.Sprintf("the daemon closed the session instead of answering (%v, partial %q)", err, c08Trunc(l, 100))
			if v.Invalid {
				out.Status = "no-error-reply"
			}
			if w.skind == "mesh" {
				// a mesh stream can also be torn down by its own transport (QUIC over the backend link):
				// not attributable to the control service as long as the daemon and other sessions live
				out.Status = "inconclusive"
				if pf := n.probeFresh("unix"); pf != nil {
					out.Status, out.Probe, out.Detail = "wedge", pf.Probe, pf.Detail
				}
			}
			return out
		}
	}
	out.Reply = c08Trunc(reply, 300)
	if out.Answered {
		if v.Invalid && !strings.HasPrefix(reply, "ERROR") {
			out.Status, out.Detail = "no-error-reply", fmt.Sprintf("definitely invalid (%s) but the first reply line is %q", v.Why, c08Trunc(reply, 200))
		} else if in.Well != "" && in.After == "" && !c08Shape(in.Well, n.id, reply) {
			out.Status, out.Detail = "bad-answer", fmt.Sprintf("well-formed command (expected shape %s) answered %q", in.Well, c08Trunc(reply, 200))
		}
	}
	// the reply may have turned the session into a data stream
	switch {
	case c08AckRe.MatchString(reply):
		extraUnits = append(extraUnits, c08AckRe.FindStringSubmatch(reply)[1])
		consumed = true
		if in.After == "" {
			_ = s.c.Send([]byte("not a workgen specification\n"), c08ProbeWait)
			_ = s.c.HalfClose()
			fin, err := s.line(c08ReplyWait)
			if err != nil && !w.dead() {
				out.More = append(out.More, "after payload: "+err.Error())
				if err == errC08Timeout && out.Status == "ok" {
					if pf := n.probeFresh(w.freshKind()); pf != nil {
						out.Status, out.Probe, out.Detail = "wedge", pf.Probe, pf.Detail
					} else {
						out.Status, out.Detail = "no-reply", "no final reply to a completed submission within 30s"
					}
				}
			} else {
				out.More = append(out.More, c08Trunc(fin, 200))
			}
		}
	case strings.HasPrefix(reply, "Streaming results for work unit"):
		consumed = true
		_ = s.c.C.SetReadDeadline(time.Now().Add(1500 * time.Millisecond))
		nb, _ := io.CopyN(io.Discard, s.c.R, 1<<20)
		out.More = append(out.More, fmt.Sprintf("(%d stream bytes read, then closed)", nb))
	case reply == "Connecting":
		consumed = true
	}
	if consumed {
		w.dropSession()
	} else {
		out.More = append(out.More, s.drain(15*time.Millisecond, 8)...)
		if out.Status == "ok" {
			if pf := n.probeSame(s); pf != nil {
				w.dropSession()
				if w.deadSoon() {
					out.Status, out.Detail = "crash", pf.Detail
					return out
				}
				if pf.Closed {
					out.Status, out.Detail = "session-closed", "the daemon closed the session after the request: "+pf.Detail
					if w.skind == "mesh" {
						out.Status = "inconclusive"
					}
				} else if pf2 := n.probeFresh(w.freshKind()); pf2 != nil {
					out.Status, out.Probe, out.Detail = "wedge", pf2.Probe, pf2.Detail
					return out
				} else {
					out.Status, out.Probe, out.Detail = "session-wedge", pf.Probe, "same session: "+pf.Detail+" (fresh sessions are served)"
					if w.skind == "mesh" {
						out.Status = "inconclusive"
					}
				}
				return out
			}
		} else {
			w.dropSession()
		}
	}
	if pf := n.probeFresh(w.freshKind()); pf != nil && (out.Status == "ok" || out.Status == "no-error-reply" || out.Status == "bad-answer") {
		out.Status, out.Probe, out.Detail = "wedge", pf.Probe, pf.Detail
	}
	if w.s != nil && w.used >= w.limit {
		w.dropSession()
	}
	return out
}

// ---------------------------------------------------------------- scripts (protocol stages)

func (w *c08Worker) runScript(in *c08Input) *c08Outcome {
	n := w.n
	out := &c08Outcome{In: in, Kind: w.kind, Status: "ok"}
	out.Verdict = c08Verdict{Reached: in.Cmd != "", Cmd: in.Cmd}
	n.logLine(fmt.Sprintf("BEGIN %d script %s arg=%d kind=%s", in.Idx, in.Script, in.Arg, w.kind))
	var units []string
	res := &c08Resolved{}
	defer func() { n.cleanup(res, units) }()
	var open []*ctl.Client
	defer func() {
		for _, c := range open {
			c.Close()
		}
	}()
	fail := func(status, detail string) *c08Outcome {
		out.Status, out.Detail = status, detail
		return out
	}
	newSess := func() (*c08Reader, error) {
		c, k, err := n.open(w.kind)
		if err != nil {
			return nil, err
		}
		out.Kind = k
		open = append(open, c)
		return &c08Reader{c: c}, nil
	}
	mid := func() bool { // probes while the session is held in a protocol stage
		if pf := n.probeFresh(w.freshKind()); pf != nil {
			out.Status, out.Probe, out.Detail = "wedge", pf.Probe, "while the session was held mid-"+in.Script+": "+pf.Detail
			return false
		}
		return true
	}
	fixture := func(tpl string) (string, bool) {
		r, err := n.resolve(tpl)
		res.units = append(res.units, r.units...)
		res.disks = append(res.disks, r.disks...)
		if err != nil {
			out.Status, out.Detail = "inconclusive", "fixture: "+err.Error()
			return "", false
		}
		return string(r.line), true
	}
	// request: send a well-formed request line, return the first reply
	request := func(s *c08Reader, line string) (string, bool) {
		if err := s.c.Send([]byte(line+"\n"), c08ProbeWait); err != nil {
			out.Status, out.Detail = "inconclusive", "write: "+err.Error()
			return "", false
		}
		l, err := s.line(c08FirstWait)
		if err == errC08Timeout {
			if !mid() {
				return "", false
			}
			l, err = s.line(c08ReplyWait - c08FirstWait)
		}
		if err != nil {
			out.Status, out.Detail = "no-reply", fmt.Sprintf("well-formed %q got no reply: %v", c08Trunc(line, 80), err)
			return "", false
		}
		out.Answered = true
		out.Reply = c08Trunc(l, 200)
		return l, true
	}
	expect := func(cond bool, what, got string) bool {
		if !cond {
			out.Status, out.Detail = "bad-answer", fmt.Sprintf("%s: got %q", what, c08Trunc(got, 200))
		}
		return cond
	}
	validSpec, _ := json.Marshal(GenSpec{Seed: 11, Chunks: []GenChunk{{N: 100}}})

	name := in.Script
	switch {
	case name == "open-close":
		if w.kind == "tcp" {
			if c, err := net.DialTimeout("tcp", fmt.Sprintf("127.0.0.1:%d", n.D().CtlPort), c08ProbeWait); err == nil {
				c.Close()
			}
		} else if c, err := net.DialTimeout("unix", n.D().Sock(), c08ProbeWait); err == nil {
			c.Close()
		}
	case name == "open-idle-close":
		for i := 0; i < 5; i++ {
			if _, err := newSess(); err != nil {
				return fail("inconclusive", "open: "+err.Error())
			}
		}
	case strings.HasPrefix(name, "submit:"):
		s, err := newSess()
		if err != nil {
			return fail("inconclusive", "open: "+err.Error())
		}
		req := "work submit " + n.id + " gen"
		switch name {
		case "submit:json-ok":
			req = `{"command":"work","subcommand":"submit","node":"` + n.id + `","worktype":"gen"}`
		case "submit:remote-ack-close":
			req = "work submit nosuchnode gen"
		}
		ack, ok := request(s, req)
		if !ok {
			return out
		}
		m := c08AckRe.FindStringSubmatch(ack)
		if !expect(m != nil, "submit acknowledgement expected", ack) {
			return out
		}
		units = append(units, m[1])
		final := func() bool {
			_ = s.c.HalfClose()
			l, err := s.line(c08ReplyWait + time.Duration(in.Arg>>20)*8*time.Second)
			if err != nil {
				if err == errC08Timeout && !mid() {
					return false
				}
				out.Status, out.Detail = "no-reply", fmt.Sprintf("no final reply after payload + half-close: %v", err)
				return false
			}
			out.More = append(out.More, c08Trunc(l, 200))
			var fm map[string]any
			return expect(json.Unmarshal([]byte(l), &fm) == nil && fm["unitid"] == m[1], "final submit reply with the unit id expected", l)
		}
		switch name {
		case "submit:ack-close", "submit:remote-ack-close":
		case "submit:midpayload-close":
			_ = s.c.Send([]byte(strings.Repeat("x", in.Arg)), c08ProbeWait)
		case "submit:payload-noeof-close":
			_ = s.c.Send(validSpec, c08ProbeWait)
			time.Sleep(100 * time.Millisecond)
			if !mid() {
				return out
			}
		case "submit:hold":
			if !mid() {
				return out
			}
			id2, err := n.newTmp(false) // a complete well-formed submission on another session
			if err != nil {
				if w.deadSoon() {
					return fail("crash", err.Error())
				}
				return fail("wedge", "a well-formed submission on another session failed while one session was waiting for its payload: "+err.Error())
			}
			units = append(units, id2)
		case "submit:ok", "submit:json-ok":
			_ = s.c.Send(validSpec, c08ProbeWait)
			if !final() {
				return out
			}
		case "submit:bigpayload":
			if err := c08Send(s.c, []byte(strings.Repeat("y", in.Arg)), 0); err != nil {
				return fail("inconclusive", "payload write: "+err.Error())
			}
			if !final() {
				return out
			}
		case "submit:garbage-payload":
			b := make([]byte, in.Arg)
			w.rng.Read(b)
			_ = s.c.Send(b, c08ProbeWait)
			if !final() {
				return out
			}
		case "submit:empty-payload":
			if !final() {
				return out
			}
		}
	case strings.HasPrefix(name, "results:"):
		unit := "@RUN@"
		if name == "results:full" || name == "results:startpos-mid" {
			unit = "@FIN@"
		}
		id, ok := fixture(unit)
		if !ok {
			return out
		}
		s, err := newSess()
		if err != nil {
			return fail("inconclusive", "open: "+err.Error())
		}
		req := "work results " + id
		switch name {
		case "results:startpos-mid":
			req += fmt.Sprintf(" %d", in.Arg)
		case "results:json-mid-close":
			req = `{"command":"work","subcommand":"results","unitid":"` + id + `","startpos":0}`
		}
		first, ok := request(s, req)
		if !ok {
			return out
		}
		if !expect(first == "Streaming results for work unit "+id, "results announcement expected", first) {
			return out
		}
		switch name {
		case "results:full", "results:startpos-mid":
			_ = s.c.C.SetReadDeadline(time.Now().Add(20 * time.Second))
			nb, err := io.Copy(io.Discard, s.c.R)
			out.More = append(out.More, fmt.Sprintf("stream: %d bytes, err=%v", nb, err))
		case "results:running-hold":
			time.Sleep(300 * time.Millisecond)
			if !mid() {
				return out
			}
		case "results:halfclose":
			_ = s.c.HalfClose()
			_ = s.c.C.SetReadDeadline(time.Now().Add(time.Second))
			nb, _ := io.CopyN(io.Discard, s.c.R, 1<<16)
			out.More = append(out.More, fmt.Sprintf("stream after half-close: %d bytes", nb))
			if !mid() {
				return out
			}
		default: // mid-close
			_ = s.c.C.SetReadDeadline(time.Now().Add(c08ProbeWait))
			b := make([]byte, 1)
			if _, err := io.ReadFull(s.c.R, b); err != nil {
				out.More = append(out.More, "no stream byte within 10s: "+err.Error())
			}
			if !mid() {
				return out
			}
		}
	case strings.HasPrefix(name, "connect:"):
		s, err := newSess()
		if err != nil {
			return fail("inconclusive", "open: "+err.Error())
		}
		req := "connect " + n.id + " control"
		if name == "connect:json-nested" {
			req = `{"command":"connect","node":"` + n.id + `","service":"control"}`
		}
		l, ok := request(s, req)
		if !ok {
			return out
		}
		if !expect(l == "Connecting", "Connecting expected", l) {
			return out
		}
		if name == "connect:close-after-connecting" {
			break
		}
		nested := func() bool {
			g, err := s.line(c08ReplyWait)
			if err != nil {
				if err == errC08Timeout && !mid() {
					return false
				}
				out.Status, out.Detail = "no-reply", "no greeting through the bridged connection: "+err.Error()
				return false
			}
			return expect(strings.HasPrefix(g, "Receptor Control, node "+n.id), "nested greeting expected", g)
		}
		if !nested() {
			return out
		}
		switch name {
		case "connect:nested", "connect:json-nested":
			st, ok := request(s, "status")
			if !ok {
				return out
			}
			if !expect(c08Shape("status", n.id, st), "status through the bridge expected", st) {
				return out
			}
			if !mid() {
				return out
			}
		case "connect:nested-garbage":
			b := make([]byte, in.Arg)
			w.rng.Read(b)
			_ = s.c.Send(b, c08ProbeWait)
		case "connect:nested-halfclose":
			_ = s.c.HalfClose()
			_ = s.c.C.SetReadDeadline(time.Now().Add(2 * time.Second))
			_, _ = io.Copy(io.Discard, s.c.R)
		case "connect:nested2":
			l2, ok := request(s, req)
			if !ok {
				return out
			}
			if !expect(l2 == "Connecting", "second-level Connecting expected", l2) || !nested() {
				return out
			}
			st, ok := request(s, "work list")
			if !ok {
				return out
			}
			if !expect(c08Shape("list", n.id, st), "work list through two bridges expected", st) {
				return out
			}
		case "connect:nested-submit-close":
			ack, ok := request(s, "work submit "+n.id+" gen")
			if !ok {
				return out
			}
			if m := c08AckRe.FindStringSubmatch(ack); m != nil {
				units = append(units, m[1])
			}
		}
	case strings.HasPrefix(name, "pipelined"):
		s, err := newSess()
		if err != nil {
			return fail("inconclusive", "open: "+err.Error())
		}
		if err := s.c.Send([]byte("status\nbogus-command\nping "+n.id+"\nwork list\n"), c08ProbeWait); err != nil {
			return fail("inconclusive", "write: "+err.Error())
		}
		if name == "pipelined-close" {
			break
		}
		for i, want := range []string{"status", "ERROR", "ping", "list"} {
			l, err := s.line(c08FirstWait)
			if err == errC08Timeout {
				if !mid() {
					return out
				}
				l, err = s.line(c08ReplyWait - c08FirstWait)
			}
			if err != nil {
				return fail("no-reply", fmt.Sprintf("pipelined request %d got no reply: %v", i+1, err))
			}
			out.Answered = true
			if want == "ERROR" {
				if !strings.HasPrefix(l, "ERROR") {
					out.Verdict.Invalid = true
					return fail("no-error-reply", fmt.Sprintf("pipelined unknown command answered %q", c08Trunc(l, 200)))
				}
			} else if !expect(c08Shape(want, n.id, l), "pipelined "+want+" answer expected", l) {
				return out
			}
		}
		if pf := n.probeSame(s); pf != nil {
			out.Probe = pf.Probe
			return fail("session-wedge", "after pipelined requests: "+pf.Detail)
		}
	}
	// abrupt end of every session the script opened, then the fresh-session probes
	for _, c := range open {
		c.Close()
	}
	open = nil
	if out.Status == "ok" {
		if pf := n.probeFresh(w.freshKind()); pf != nil {
			out.Status, out.Probe, out.Detail = "wedge", pf.Probe, pf.Detail
		}
	}
	return out
}

// ---------------------------------------------------------------- reporting

type c08Report struct {
	run      *ev.Run
	mu       sync.Mutex
	slow     []string
	classMs  map[string]int64
	violated map[int]bool   // input idx that violated (left out of phase 2)
	wedges   map[string]int // wedges seen per class
	samples  int
}

func c08MutKey(in *c08Input) string {
	if strings.HasPrefix(in.Mut, "rand:") || strings.Contains(in.Mut, "#") {
		return in.Class
	}
	return in.Mut
}

func c08DumpExcerpt(outFile string) string {
	b, err := os.ReadFile(outFile)
	if err != nil {
		return ""
	}
	s := string(b)
	i := strings.Index(s, "SIGQUIT")
	if i < 0 {
		i = strings.Index(s, "goroutine ")
	}
	if i < 0 {
		return ""
	}
	blocks := strings.Split(s[i:], "\n\n")
	var keep []string
	for _, bl := range blocks {
		if !strings.HasPrefix(bl, "goroutine ") {
			continue
		}
		if !(strings.Contains(bl, "pkg/workceptor") || strings.Contains(bl, "pkg/controlsvc")) || !(strings.Contains(bl, "sync.") || strings.Contains(bl, "semacquire") || strings.Contains(bl, "[chan ") || strings.Contains(bl, "[select")) {
			continue
		}
		// header + receptor frames only
		lines := strings.Split(bl, "\n")
		short := []string{lines[0]}
		for k := 1; k < len(lines); k++ {
			if strings.HasPrefix(lines[k], "github.com/ansible/receptor/") || strings.HasPrefix(lines[k], "sync.(") {
				short = append(short, lines[k])
				if k+1 < len(lines) && strings.HasPrefix(lines[k+1], "\t") {
					f := strings.Fields(lines[k+1])
					if len(f) > 0 {
						short = append(short, "\t"+f[0])
					}
				}
			}
		}
		keep = append(keep, strings.Join(short, "\n"))
	}
	rank := func(b string) int {
		switch {
		case strings.Contains(b, "[sync.RWMutex.Lock") || strings.Contains(b, "[sync.Mutex.Lock"):
			return 0
		case strings.Contains(b, "RWMutex"):
			return 1
		}
		return 2
	}
	sort.SliceStable(keep, func(a, b int) bool { return rank(keep[a]) < rank(keep[b]) })
	if len(keep) > 8 {
		keep = append(keep[:8], fmt.Sprintf("... and %d more blocked goroutines in workceptor/controlsvc", len(keep)-8))
	}
	return strings.Join(keep, "\n\n")
}

var c08FrameRe = regexp.MustCompile(`^(github\.com/ansible/receptor/\S+?)\((0x|\.\.\.|\))`)

// c08TopFrame returns the first receptor frame (full function name) after the fatal line.
func c08TopFrame(outFile string) string {
	b, err := os.ReadFile(outFile)
	if err != nil {
		return ""
	}
	s := string(b)
	i := strings.Index(s, "\npanic: ")
	if j := strings.Index(s, "\nfatal error: "); i < 0 || (j >= 0 && j < i) {
		i = j
	}
	if i < 0 {
		return ""
	}
	for _, l := range strings.Split(s[i:], "\n") {
		if m := c08FrameRe.FindStringSubmatch(l); m != nil {
			return m[1]
		}
	}
	return ""
}

// record turns an outcome into evidence / violations. Returns true if the daemon must be restarted.
func (rp *c08Report) record(o *c08Outcome, n *c08Node) (restart bool) {
	run := rp.run
	in := o.In
	run.Eval(1)
	run.Count("inputs_"+o.Kind, 1)
	run.Count(fmt.Sprintf("inputs_phase%d", o.Phase), 1)
	cmd := o.Verdict.Cmd
	if cmd == "" {
		cmd = "-"
	}
	if o.Verdict.Reached && o.Answered {
		run.Distinct(o.Kind + "|" + cmd + "|" + c08MutKey(in))
		run.SetAdd("commands_reached", cmd)
	}
	if o.Verdict.Invalid {
		run.Count("definitely_invalid_inputs", 1)
		if o.Answered && strings.HasPrefix(o.Reply, "ERROR") {
			run.Count("error_replies_to_invalid", 1)
		}
	}
	if in.Well != "" && o.Status == "ok" {
		run.Count("wellformed_answers_checked", 1)
	}
	rp.mu.Lock()
	if rp.classMs == nil {
		rp.classMs = map[string]int64{}
	}
	rp.classMs[strings.SplitN(in.Class, ":", 2)[0]] += o.Ms
	if o.Ms > 3000 {
		rp.slow = append(rp.slow, fmt.Sprintf("%dms p%d %s %s", o.Ms, o.Phase, o.Kind, in.Mut))
	}
	if rp.samples < 4 && o.Status == "ok" && ((rp.samples < 2 && o.Verdict.Invalid && o.Verdict.Reached) || (rp.samples >= 2 && in.Mode == "script" && in.Cmd != "")) {
		rp.samples++
		run.Sample(map[string]any{"mut": in.Mut, "class": in.Class, "kind": o.Kind, "line": o.Line, "reply": o.Reply, "invalid": o.Verdict.Invalid, "why": o.Verdict.Why, "phase": o.Phase})
	}
	rp.mu.Unlock()
	wit := func() map[string]any {
		return map[string]any{"outcome": o, "input_log": filepath.Join(n.dir, "inputs.log")}
	}
	mark := func() {
		rp.mu.Lock()
		rp.violated[in.Idx] = true
		rp.mu.Unlock()
	}
	switch o.Status {
	case "ok":
	case "inconclusive":
		run.Inconclusive(fmt.Sprintf("C08 input %d (%s): %s", in.Idx, in.Mut, o.Detail))
	case "crash":
		fatal, top, _ := n.D().Fatal()
		if t := c08TopFrame(n.D().OutFile()); t != "" {
			top = t
		}
		o.Fatal, o.Top = fatal, top
		if fatal == "" {
			tail := n.D().OutTail(600)
			o.Fatal = "(no panic / fatal line) tail: " + c08Trunc(tail, 600)
			if strings.Contains(tail, "address already in use") {
				run.Inconclusive(fmt.Sprintf("C08 input %d (%s): the daemon could not bind a port chosen by the harness: %s", in.Idx, in.Mut, c08Trunc(tail, 200)))
				return true
			}
		}
		run.Count("crashes", 1)
		mark()
		run.Violation("crash:"+in.Class, fmt.Sprintf("%s input %s %s killed the daemon: %s at %s :: %s", o.Kind, in.Mut, o.Line, child.FatalClass(fatal), top, fatal), wit())
		return true
	case "wedge", "session-wedge":
		if o.Status == "wedge" {
			n.D().Dump()
			o.Dump = c08DumpExcerpt(n.D().OutFile())
			restart = true
		}
		run.Count("wedges", 1)
		mark()
		rp.mu.Lock()
		rp.wedges[in.Class]++
		rp.mu.Unlock()
		run.Violation(o.Status+":"+o.Probe+":"+in.Class, fmt.Sprintf("after %s input %s %s the probe %q was not answered in %d attempts of %v while the process was alive: %s", o.Kind, in.Mut, o.Line, o.Probe, c08ProbeTries, c08ProbeWait, o.Detail), wit())
		return restart
	default: // no-error-reply no-reply bad-answer session-closed
		mark()
		run.Violation(o.Status+":"+in.Class, fmt.Sprintf("%s input %s %s: %s", o.Kind, in.Mut, o.Line, o.Detail), wit())
	}
	return false
}

func (rp *c08Report) skip(in *c08Input) bool {
	rp.mu.Lock()
	defer rp.mu.Unlock()
	return rp.wedges[in.Class] >= 4
}

// ---------------------------------------------------------------- phases

func c08Restart(n *c08Node, run *ev.Run) bool {
	n.D().Kill()
	c08KillStrays(filepath.Join(n.dir, "data"))
	n.mu.Lock()
	n.run = "" // its runner was killed with the strays
	n.mu.Unlock()
	if err := n.boot(); err != nil {
		run.Inconclusive(fmt.Sprintf("C08 daemon %s could not be restarted: %v", n.name, err))
		return false
	}
	run.Count("daemon_restarts", 1)
	return true
}

func runC08(tier string, args []string) {
	run := ev.New("C08", tier, "exploration")
	run.Rule("systematic control-service inputs (every built-in command and work sub-command x every field absent / of every JSON type, unknown fields, duplicate keys, deep nesting, plain forms with 0-5 tokens, blanks/CR/tabs/case, raw and invalid-UTF-8 bytes, {-garbage, startpos values, 26 unit-id variants incl. units present only on disk, over-long and unterminated lines, disconnects at every protocol stage) plus seeded random bytes / field combinations / token lists / byte flips. Phase 1: each input alone on one of S daemons (one session per daemon: exact attribution), phase 2: a seeded sample of the same inputs (all scripts and well-formed commands) on W concurrent unix/tcp/mesh sessions of one daemon. After every input: work list, status, self-ping on the same session (if the protocol left it open) and on a fresh one, 3 attempts of 10 s. Flood: a daemon started under `ulimit -n L` (L seeded, 64-200), a client that opens 2L+40 sessions alternately on the Unix socket and the TCP port (the surplus waits ungreeted while accept fails for lack of descriptors), `status` on greeted sessions meanwhile, then all closed; afterwards a fresh session on each of the two listeners must be greeted and answer status + self-ping within 30 s (retried). distinct_nontrivial = distinct (connection kind, command, mutation) of answered inputs whose first token / \"command\" names a registered command")
	run.Assume("ERROR is demanded only for lines invalid under both a strict and a tolerant reading of the documented command set (null in optional fields, case variants, duplicate keys, nesting deeper than 500, unterminated fragments and blank lines are not judged); unknown = ids the harness never created or has released; an unexpected close of a unix/tcp session counts as 'the same session no longer answers'; `reload` (flag-configured daemon) may answer anything")
	run.Assume("a wedge class seen 4 times is not exercised further in the same run (counted as skipped); inputs that violated alone are left out of the concurrent phase")
	base := filepath.Join(workDir(), "c08")
	_ = os.MkdirAll(base, 0o755)
	if os.Getenv("VERIF_DAEMON") == "" {
		run.Inconclusive("VERIF_DAEMON not set")
		run.Finish(2)
	}
	inputs := genC08(run.Seed, !run.Quick())
	p2only := len(args) > 1 && args[1] == "p2only" // debugging aid: exercise the concurrent phase's attribution alone
	if len(args) > 0 && args[0] != "" {            // debugging aid: restrict to inputs whose label contains the argument
		var f []*c08Input
		for _, in := range inputs {
			if strings.Contains(in.Mut, args[0]) || strings.Contains(in.Class, args[0]) {
				f = append(f, in)
			}
		}
		inputs = f
	}
	run.Extra("generated_inputs", len(inputs))
	rp := &c08Report{run: run, violated: map[int]bool{}, wedges: map[string]int{}}
	kinds := []string{"unix", "tcp", "mesh"}

	// ---- phase 1
	t0 := time.Now()
	S := run.Pick(14, 16)
	if len(inputs) < S {
		S = len(inputs)
	}
	if p2only {
		S = 0
	}
	nodes := make([]*c08Node, S)
	var wg sync.WaitGroup
	var all []*c08Node
	var allMu sync.Mutex
	for i := 0; i < S; i++ {
		wg.Add(1)
		go func(i int) {
			defer wg.Done()
			kind := kinds[(i+int(run.Seed))%3]
			n, err := c08NewNode(base, fmt.Sprintf("s%02d", i), fmt.Sprintf("d08s%d", i), kind == "mesh")
			if err != nil {
				run.Inconclusive(fmt.Sprintf("C08 daemon s%02d did not start: %v", i, err))
				return
			}
			allMu.Lock()
			all = append(all, n)
			allMu.Unlock()
			nodes[i] = n
			w := &c08Worker{n: n, kind: kind, rng: rand.New(rand.NewSource(run.Seed*1000 + int64(i)))}
			var prev *c08Input
			for k := i; k < len(inputs); k += S {
				in := inputs[(k+int(run.Seed)*7)%len(inputs)]
				if rp.skip(in) {
					run.Count("skipped_after_repeated_wedge", 1)
					continue
				}
				if !n.D().Alive() {
					// died between two inputs: attribute to the previous one
					if prev != nil {
						o := &c08Outcome{In: prev, Node: n.name, Kind: w.kind, Status: "crash", Phase: 1, Detail: "the daemon died after this input had been answered and probed", Verdict: c08Verdict{}}
						rp.record(o, n)
					}
					w.dropSession()
					if !c08Restart(n, run) {
						return
					}
				}
				o := w.run(in, 1)
				prev = in
				if rp.record(o, n) {
					w.dropSession()
					if !c08Restart(n, run) {
						return
					}
				}
			}
			w.dropSession()
		}(i)
	}
	wg.Wait()
	for _, n := range nodes {
		if n != nil {
			n.stop()
		}
	}

	run.Extra("phase1_s", time.Since(t0).Seconds())
	t1 := time.Now()
	// ---- phase 2: concurrent sessions on one daemon
	W := run.Pick(6, 16)
	main, err := c08NewNode(base, "main", "d08", true)
	if err != nil {
		run.Inconclusive("C08 main daemon did not start: " + err.Error())
	} else {
		all = append(all, main)
		c08Concurrent(run, rp, main, inputs, W, kinds, base)
		main.stop()
	}

	run.Extra("phase2_s", time.Since(t1).Seconds())
	c08Flood(run, base) // c08flood.go: more concurrent sessions than the node has descriptors for
	if os.Getenv("C08_TIMING") != "" {
		run.Extra("slow_inputs", rp.slow)
		run.Extra("class_ms", rp.classMs)
	}
	// race-detector reports of the daemons and of the harness: diagnostics
	files, _ := filepath.Glob(filepath.Join(base, "*", "race*"))
	f2, _ := filepath.Glob(filepath.Join(workDir(), "race*"))
	sigs, total := raceSignatures(append(files, f2...))
	run.Count("race_reports", int64(total))
	sl := []string{}
	for s, c := range sigs {
		sl = append(sl, fmt.Sprintf("%s x%d", s, c))
	}
	sort.Strings(sl)
	run.Extra("race_signatures", sl)
	c08KillStrays(base)
	run.Finish(run.Pick(600, 1000))
}

// c08Concurrent is phase 2.
func c08Concurrent(run *ev.Run, rp *c08Report, n *c08Node, inputs []*c08Input, W int, kinds []string, base string) {
	rng := rand.New(rand.NewSource(run.Seed*31 + 5))
	var queue []*c08Input
	for _, in := range inputs {
		rp.mu.Lock()
		bad := rp.violated[in.Idx]
		rp.mu.Unlock()
		if bad {
			run.Count("left_out_of_concurrent_phase", 1)
			continue
		}
		if rp.skip(in) {
			run.Count("skipped_after_repeated_wedge", 1)
			continue
		}
		if strings.Contains(in.Mut, "16384K") {
			continue // the 16 MiB lines run in phase 1 only
		}
		queue = append(queue, in)
	}
	rng.Shuffle(len(queue), func(a, b int) { queue[a], queue[b] = queue[b], queue[a] })
	// the concurrent phase takes a seeded sample (every script and every well-formed command is kept)
	if limit := run.Pick(450, 8000); len(queue) > limit {
		sort.SliceStable(queue, func(a, b int) bool {
			ka := queue[a].Mode == "script" || queue[a].Well != ""
			kb := queue[b].Mode == "script" || queue[b].Well != ""
			return ka && !kb
		})
		queue = queue[:limit]
		rng.Shuffle(len(queue), func(a, b int) { queue[a], queue[b] = queue[b], queue[a] })
	}
	run.Extra("concurrent_phase_inputs", len(queue))

	var mu sync.Mutex
	cond := sync.NewCond(&mu)
	pos := 0
	gen := 0
	recovering := false
	inflight := map[int]*c08Input{}
	failed := map[int]*c08Outcome{} // workers whose input failed in the current generation
	requeued := map[int]int{}
	singleN := 0

	next := func(wi int) (*c08Input, int) {
		mu.Lock()
		defer mu.Unlock()
		for recovering {
			cond.Wait()
		}
		if pos >= len(queue) {
			return nil, gen
		}
		in := queue[pos]
		pos++
		inflight[wi] = in
		return in, gen
	}
	done := func(wi int) {
		mu.Lock()
		delete(inflight, wi)
		cond.Broadcast()
		mu.Unlock()
	}
	// single re-runs one candidate alone against a fresh daemon
	single := func(in *c08Input, k int) *c08Outcome {
		sn, err := c08NewNode(base, fmt.Sprintf("x%02d", k), fmt.Sprintf("d08x%d", k), false)
		if err != nil {
			return &c08Outcome{In: in, Status: "inconclusive", Detail: "single re-run daemon: " + err.Error()}
		}
		defer sn.stop()
		w := &c08Worker{n: sn, kind: "unix", rng: rand.New(rand.NewSource(int64(k)))}
		o := w.run(in, 2)
		w.dropSession()
		o.Detail = "(found with concurrent sessions, confirmed by a single-input re-run on a fresh daemon) " + o.Detail
		if o.Status != "ok" && o.Status != "inconclusive" {
			rp.record(o, sn)
		}
		return o
	}
	fail := func(wi int, g int, o *c08Outcome) {
		mu.Lock()
		if g != gen {
			// a failure of an older generation: the input was in flight when the daemon went away
			delete(inflight, wi)
			if requeued[o.In.Idx] < 2 {
				requeued[o.In.Idx]++
				queue = append(queue, o.In)
			}
			cond.Broadcast()
			mu.Unlock()
			return
		}
		failed[wi] = o
		if recovering {
			cond.Broadcast()
			for recovering {
				cond.Wait()
			}
			mu.Unlock()
			return
		}
		recovering = true
		mu.Unlock()
		// make every other session fail fast, keep the evidence
		dump := ""
		fatal, top := "", ""
		if o.Status == "crash" || !n.D().Alive() {
			fatal, top, _ = n.D().Fatal()
		} else {
			n.D().Dump()
			dump = c08DumpExcerpt(n.D().OutFile())
		}
		tail := c08Trunc(n.D().OutTail(800), 800)
		mu.Lock()
		deadline := time.Now().Add(90 * time.Second)
		for len(failed) < len(inflight) && time.Now().Before(deadline) {
			mu.Unlock()
			time.Sleep(50 * time.Millisecond)
			mu.Lock()
		}
		cands := []*c08Outcome{}
		for wi2, fo := range failed {
			cands = append(cands, fo)
			delete(inflight, wi2)
		}
		failed = map[int]*c08Outcome{}
		mu.Unlock()
		sort.Slice(cands, func(a, b int) bool { return cands[a].In.Idx < cands[b].In.Idx })
		okRestart := c08Restart(n, run)
		// confirm singly, in parallel
		results := make([]*c08Outcome, len(cands))
		var swg sync.WaitGroup
		for i, c := range cands {
			mu.Lock()
			singleN++
			k := singleN
			mu.Unlock()
			swg.Add(1)
			go func(i int, c *c08Outcome, k int) {
				defer swg.Done()
				results[i] = single(c.In, k)
			}(i, c, k)
		}
		swg.Wait()
		confirmed := 0
		labels := []string{}
		mu.Lock()
		for i, c := range cands {
			labels = append(labels, fmt.Sprintf("#%d %s %s", c.In.Idx, c.In.Mut, c.Line))
			if r := results[i]; r != nil && r.Status != "ok" && r.Status != "inconclusive" {
				confirmed++
				continue
			}
			if requeued[c.In.Idx] < 1 {
				requeued[c.In.Idx]++
				queue = append(queue, c.In)
			}
		}
		mu.Unlock()
		if confirmed == 0 {
			key := "crash:concurrent"
			what := fmt.Sprintf("the daemon died with %d concurrent sessions (%s at %s :: %s); none of the in-flight inputs reproduces it alone", len(cands), child.FatalClass(fatal), top, fatal)
			if o.Status != "crash" {
				key = o.Status + ":" + o.Probe + ":concurrent"
				what = fmt.Sprintf("probe %q unanswered with %d concurrent sessions (%s); none of the in-flight inputs reproduces it alone", o.Probe, len(cands), o.Detail)
			}
			run.Count("concurrent_failures_unattributed", 1)
			run.Violation(key, what, map[string]any{"in_flight": labels, "first_report": o, "fatal": fatal, "top_frame": top, "goroutines": dump, "output_tail": tail})
		}
		mu.Lock()
		for wi2, fo := range failed { // reported after the candidates had been collected
			delete(inflight, wi2)
			if requeued[fo.In.Idx] < 2 {
				requeued[fo.In.Idx]++
				queue = append(queue, fo.In)
			}
		}
		failed = map[int]*c08Outcome{}
		gen++
		recovering = false
		if !okRestart {
			pos = len(queue)
		}
		cond.Broadcast()
		mu.Unlock()
	}

	var wg sync.WaitGroup
	for wi := 0; wi < W; wi++ {
		wg.Add(1)
		go func(wi int) {
			defer wg.Done()
			w := &c08Worker{n: n, kind: kinds[(wi+int(run.Seed))%3], rng: rand.New(rand.NewSource(run.Seed*77 + int64(wi)))}
			for {
				in, g := next(wi)
				if in == nil {
					break
				}
				o := w.run(in, 2)
				if o.Status == "crash" || o.Status == "wedge" || !n.D().Alive() {
					if o.Status != "crash" && o.Status != "wedge" {
						o.Status = "crash"
					}
					w.dropSession()
					fail(wi, g, o)
					continue
				}
				rp.record(o, n)
				done(wi)
			}
			w.dropSession()
		}(wi)
	}
	wg.Wait()
}
