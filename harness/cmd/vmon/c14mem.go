package main

import (
	"context"
	"encoding/json"
	"fmt"
	"io"
	"os"
	"os/exec"
	"path/filepath"
	"sort"
	"strconv"
	"strings"
	"sync"
	"sync/atomic"
	"time"

	"verif/harness/internal/child"
	"verif/harness/internal/ev"

	"github.com/ansible/receptor/pkg/netceptor"
	"github.com/ansible/receptor/pkg/workceptor"
)

// C14 sub-monitor (3): readers of the daemon's IN-MEMORY copy of a status record.
//
// In the daemon one goroutine per unit keeps the unit object's in-memory record up to date with
// BaseWorkUnit.Load() (MonitorLocalStatus, the remote unit's status poll) while other goroutines take
// snapshots of it with Status()/UnredactedStatus() ("work status", "work list", the results streamer).
// Here, per unit, one goroutine alternately stores a new record in the status file (as the runner
// process does, with its own StatusFileData) and calls unit.Load(); R reader goroutines call
// unit.Status()/UnredactedStatus() in a tight loop. Record number k is (State k, Detail naming k,
// StdoutSize 1000k+7, the unit's work type): all fields follow from k, so a snapshot whose fields name
// different k is a record that was never stored - the reader saw a partially written record.
//
// The workload runs in a child process (a torn record may also be a torn string header) with its own
// race-detector log; race reports whose two accesses are both inside the status-record functions of
// pkg/workceptor/workunitbase.go are judged as well.

func init() { register("c14memchild", c14MemChildMain) }

type c14MemMixed struct {
	Unit       int    `json:"unit"`
	Reader     int    `json:"reader"`
	API        string `json:"api"`
	SnapshotNo int64  `json:"snapshot_number_of_this_reader"`
	State      int    `json:"State"`
	Detail     string `json:"Detail"`
	StdoutSize int64  `json:"StdoutSize"`
	WorkType   string `json:"WorkType"`
	What       string `json:"what"`
}

type c14MemUnit struct {
	Unit           int      `json:"unit"`
	RecordBytes    int      `json:"record_bytes"`
	Stores         int64    `json:"stores"`
	Loads          int64    `json:"loads"`
	Snapshots      int64    `json:"snapshots"`
	RecordsSeen    int64    `json:"distinct_records_seen_by_the_busiest_reader"`
	Mixed          int64    `json:"mixed_snapshots"`
	ParseErrors    []string `json:"parse_errors,omitempty"`
	OtherErrors    []string `json:"other_errors,omitempty"`
	StatusFileName string   `json:"status_file"`
}

type c14MemResult struct {
	Units []c14MemUnit  `json:"units"`
	Mixed []c14MemMixed `json:"mixed"`
}

func c14MemDetail(unit int, k int64, pad string) string {
	return fmt.Sprintf("c14mem u%02d record %010d%s", unit, k, pad)
}

func c14MemSize(k int64) int64 { return 1000*k + 7 }

// c14MemParse extracts the record number from a Detail text written by c14MemDetail.
func c14MemParse(unit int, detail, pad string) (int64, bool) {
	prefix := fmt.Sprintf("c14mem u%02d record ", unit)
	if !strings.HasPrefix(detail, prefix) || !strings.HasSuffix(detail, pad) || len(detail) != len(prefix)+10+len(pad) {
		return 0, false
	}
	k, err := strconv.ParseInt(detail[len(prefix):len(prefix)+10], 10, 64)
	if err != nil || k < 0 || c14MemDetail(unit, k, pad) != detail {
		return 0, false
	}
	return k, true
}

// c14MemChildMain: vmon c14memchild <tier> <dir> <units> <stores per unit> <readers per unit>
func c14MemChildMain(_ string, args []string) {
	if len(args) < 4 {
		os.Exit(2)
	}
	dir := args[0]
	var units, stores, readers int
	fmt.Sscan(args[1], &units)
	fmt.Sscan(args[2], &stores)
	fmt.Sscan(args[3], &readers)
	ctx, cancel := context.WithCancel(context.Background())
	defer cancel()
	nc := netceptor.New(ctx, "c14mem")
	nc.Logger.SetOutput(io.Discard)
	w, err := workceptor.New(ctx, nc, filepath.Join(dir, "data"))
	if err != nil {
		fmt.Println("c14memchild: workceptor.New:", err)
		os.Exit(2)
	}
	workceptor.MainInstance = w
	res := &c14MemResult{Units: make([]c14MemUnit, units)}
	var resMu sync.Mutex
	var wg sync.WaitGroup
	for u := 0; u < units; u++ {
		wg.Add(1)
		go func(u int) {
			defer wg.Done()
			ur := c14MemRunUnit(w, u, stores, readers, func(m c14MemMixed) {
				resMu.Lock()
				if len(res.Mixed) < 6 {
					res.Mixed = append(res.Mixed, m)
				}
				resMu.Unlock()
			})
			resMu.Lock()
			res.Units[u] = ur
			resMu.Unlock()
		}(u)
	}
	wg.Wait()
	b, _ := json.Marshal(res)
	tmp := filepath.Join(dir, "result.json.tmp")
	if err := os.WriteFile(tmp, b, 0o644); err != nil {
		fmt.Println("c14memchild: result:", err)
		os.Exit(2)
	}
	_ = os.Rename(tmp, filepath.Join(dir, "result.json"))
	os.Exit(0)
}

func c14MemRunUnit(w *workceptor.Workceptor, u, stores, readers int, report func(c14MemMixed)) c14MemUnit {
	ur := c14MemUnit{Unit: u}
	wt := fmt.Sprintf("c14mem-wt-%d", u)
	// the record length differs between units and is constant within one (Detail has a fixed width)
	pad := strings.Repeat("~", []int{0, 180, 900, 40, 2500}[u%5])
	bwu := &workceptor.BaseWorkUnit{}
	bwu.Init(w, fmt.Sprintf("unitmem%d", u), wt, workceptor.FileSystem{}, nil)
	defer bwu.CancelContext()
	ur.StatusFileName = bwu.StatusFileName()
	if err := os.MkdirAll(bwu.UnitDir(), 0o700); err != nil {
		ur.OtherErrors = append(ur.OtherErrors, "mkdir: "+err.Error())
		return ur
	}
	// record 0 is stored and loaded before any reader exists
	first := &workceptor.StatusFileData{State: 0, Detail: c14MemDetail(u, 0, pad), StdoutSize: c14MemSize(0), WorkType: wt}
	if err := first.Save(bwu.StatusFileName()); err != nil {
		ur.OtherErrors = append(ur.OtherErrors, "initial Save: "+err.Error())
		return ur
	}
	if err := bwu.Load(); err != nil {
		ur.OtherErrors = append(ur.OtherErrors, "initial Load: "+err.Error())
		return ur
	}
	if fi, err := os.Stat(bwu.StatusFileName()); err == nil {
		ur.RecordBytes = int(fi.Size())
	}
	var done atomic.Bool
	var snapshots, mixed, seenMax atomic.Int64
	var wg sync.WaitGroup
	start := make(chan struct{})
	for r := 0; r < readers; r++ {
		wg.Add(1)
		go func(r int) {
			defer wg.Done()
			api := "Status"
			if r%2 == 1 {
				api = "UnredactedStatus"
			}
			var n, seen int64
			last := int64(-1)
			<-start
			for {
				fin := done.Load() // one more snapshot after the last Load
				var s *workceptor.StatusFileData
				if r%2 == 1 {
					s = bwu.UnredactedStatus()
				} else {
					s = bwu.Status()
				}
				n++
				what := ""
				k, ok := c14MemParse(u, s.Detail, pad)
				switch {
				case !ok:
					what = "the Detail text is not one that was stored"
				case int64(s.State) != k:
					what = fmt.Sprintf("Detail is that of record %d, State that of record %d", k, s.State)
				case s.StdoutSize != c14MemSize(k):
					what = fmt.Sprintf("State and Detail are those of record %d, StdoutSize %d is not (record %d was stored with %d)", k, s.StdoutSize, k, c14MemSize(k))
				case s.WorkType != wt:
					what = fmt.Sprintf("WorkType %q, every record was stored with %q", s.WorkType, wt)
				}
				if what != "" {
					if mixed.Add(1) <= 3 {
						d := s.Detail
						if len(d) > 80 {
							d = d[:80] + "..."
						}
						report(c14MemMixed{Unit: u, Reader: r, API: api, SnapshotNo: n, State: s.State, Detail: d, StdoutSize: s.StdoutSize, WorkType: s.WorkType, What: what})
					}
				} else if k != last {
					seen++
					last = k
				}
				if fin {
					break
				}
			}
			snapshots.Add(n)
			for {
				cur := seenMax.Load()
				if seen <= cur || seenMax.CompareAndSwap(cur, seen) {
					break
				}
			}
		}(r)
	}
	close(start)
	// the loader: store record k in the file (a runner's update, or a read-modify-write setting all
	// fields), then refresh the unit's in-memory copy
	runner := &workceptor.StatusFileData{}
	noteErr := func(what string, err error) {
		if c14IsParseErr(err.Error()) {
			if len(ur.ParseErrors) < 3 {
				ur.ParseErrors = append(ur.ParseErrors, what+": "+err.Error())
			}
		} else if len(ur.OtherErrors) < 3 {
			ur.OtherErrors = append(ur.OtherErrors, what+": "+err.Error())
		}
	}
	for k := int64(1); k <= int64(stores); k++ {
		var err error
		if k%3 == 0 {
			err = (&workceptor.StatusFileData{}).UpdateFullStatus(bwu.StatusFileName(), func(s *workceptor.StatusFileData) {
				s.State, s.Detail, s.StdoutSize = int(k), c14MemDetail(u, k, pad), c14MemSize(k)
			})
		} else {
			err = runner.UpdateBasicStatus(bwu.StatusFileName(), int(k), c14MemDetail(u, k, pad), c14MemSize(k))
		}
		if err != nil {
			noteErr(fmt.Sprintf("store of record %d", k), err)
			break
		}
		ur.Stores++
		if err := bwu.Load(); err != nil {
			noteErr(fmt.Sprintf("Load after record %d", k), err)
			break
		}
		ur.Loads++
	}
	done.Store(true)
	wg.Wait()
	ur.Snapshots, ur.Mixed, ur.RecordsSeen = snapshots.Load(), mixed.Load(), seenMax.Load()
	return ur
}

// runC14Memory starts the child, judges its result and its race-detector log.
func runC14Memory(run *ev.Run) {
	work := workDir()
	dir := filepath.Join(work, "c14mem")
	_ = os.MkdirAll(dir, 0o755)
	units, stores, readers := run.Pick(3, 5), run.Pick(1000, 40000), 4
	raceLog := filepath.Join(work, "race-c14mem")
	cmd := exec.Command(os.Args[0], "c14memchild", run.Tier, dir, fmt.Sprint(units), fmt.Sprint(stores), fmt.Sprint(readers))
	cmd.Env = append(c14Env(), "GORACE=halt_on_error=0 exitcode=0 log_path="+raceLog)
	t0 := time.Now()
	cr := child.Run(cmd, filepath.Join(work, "c14mem.out"), 20*time.Minute, nil)
	run.Extra("memory_snapshot_wall_s", float64(time.Since(t0).Milliseconds())/1000)
	run.Eval(units)

	// ---- race reports of this workload (decided first: they exist even if the child died)
	raceFiles, _ := filepath.Glob(raceLog + "*")
	reports := c14ParseRaces(raceFiles)
	run.Count("memory_snapshot_race_reports", int64(len(reports)))
	racePairs := map[string]bool{}
	for _, rr := range reports {
		switch {
		case rr.inStatus[0] != "" && rr.inStatus[1] != "":
			pair := []string{rr.inStatus[0], rr.inStatus[1]}
			sort.Strings(pair)
			if p := pair[0] + " <-> " + pair[1]; !racePairs[p] {
				racePairs[p] = true
				run.Violation("race:workunitbase", fmt.Sprintf("while one goroutine refreshed a unit's in-memory status record with Load() and others took snapshots with Status(), the race detector reported a data race with both accesses inside the status-record functions of workunitbase.go (%s): the in-memory record was read while it was being written", p), map[string]any{"file": rr.file, "report": rr.text})
			}
		case rr.harnessOnly:
			run.Inconclusive("C14 memory snapshots: race report inside harness code only (harness bug), see " + rr.file)
		}
	}

	b, rerr := os.ReadFile(filepath.Join(dir, "result.json"))
	if rerr != nil {
		switch {
		case cr.Fatal != "" && !strings.HasPrefix(cr.Fatal, "harness:"):
			run.Violation("memory-snapshot:child-crash:"+child.FatalClass(cr.Fatal), fmt.Sprintf("the process in which Load() and Status() ran concurrently on one unit died: %s at %s", cr.Fatal, cr.TopFrame), map[string]any{"output": cr.OutFile})
		case cr.TimedOut:
			run.Inconclusive("C14 memory snapshots: the child hit the watchdog (goroutine dump in " + cr.OutFile + ")")
		default:
			run.Inconclusive(fmt.Sprintf("C14 memory snapshots: the child left no result (exit code %d, %s) %s", cr.ExitCode, cr.OutFile, cr.Fatal))
		}
		return
	}
	res := &c14MemResult{}
	if err := json.Unmarshal(b, res); err != nil {
		run.Inconclusive("C14 memory snapshots: unreadable result: " + err.Error())
		return
	}
	for i, m := range res.Mixed {
		if i >= 3 {
			break
		}
		run.Violation("memory-snapshot:mixed-record", fmt.Sprintf("unit %d: %s() snapshot number %d of reader %d is not a record that was ever stored: State=%d Detail=%q StdoutSize=%d (%s); one goroutine stored record after record and called Load(), every stored record k is (State k, Detail naming k, StdoutSize 1000k+7)", m.Unit, m.API, m.SnapshotNo, m.Reader, m.State, m.Detail, m.StdoutSize, m.What), m)
	}
	for _, ur := range res.Units {
		run.Count("memory_snapshot_stores", ur.Stores)
		run.Count("memory_snapshot_loads", ur.Loads)
		run.Count("memory_snapshot_snapshots", ur.Snapshots)
		run.Count("memory_snapshot_records_seen_by_busiest_reader", ur.RecordsSeen)
		run.Count("memory_snapshot_mixed", ur.Mixed)
		for _, e := range ur.ParseErrors {
			run.Violation("memory-snapshot:unparsable-record", fmt.Sprintf("unit %d: with a single goroutine storing records and loading them, %s", ur.Unit, e), ur)
		}
		if len(ur.OtherErrors) > 0 {
			run.Inconclusive(fmt.Sprintf("C14 memory snapshots unit %d: %s", ur.Unit, strings.Join(ur.OtherErrors, "; ")))
			continue
		}
		// non-trivial: the readers really watched the record change many times while loads went on
		if ur.Mixed == 0 && len(ur.ParseErrors) == 0 && ur.Loads == int64(stores) && ur.RecordsSeen >= int64(stores)/20 {
			run.Distinct(fmt.Sprintf("memory-snapshot|unit%d|%dB", ur.Unit, ur.RecordBytes))
		} else if ur.Mixed == 0 && len(ur.ParseErrors) == 0 {
			run.Count("memory_snapshot_units_with_little_overlap", 1)
		}
	}
	if len(res.Units) > 0 {
		run.Sample(map[string]any{"sub_monitor": "memory snapshots during Load", "units": res.Units, "readers_per_unit": readers})
	}
}
