package main

import (
	"context"
	"encoding/json"
	"fmt"
	"io"
	"math/rand"
	"os"
	"os/exec"
	"path/filepath"
	"strconv"
	"sync"
	"sync/atomic"
	"time"

	"github.com/ansible/receptor/pkg/netceptor"

	"verif/harness/internal/child"
	"verif/harness/internal/ev"
	"verif/harness/internal/mesh"
	"verif/harness/internal/prng"
)

// Long answers: the dialer sends a short request, closes its stream (a half-close: "I have nothing more to
// say") and then reads an answer that keeps coming for several QUIC idle-timeout periods; the other direction:
// the listener half-closes and reads. Neither end is ever idle, so the whole answer and then end-of-stream must
// arrive. The trials run in a child process whose library idle timeout (the exported knob
// netceptor.MaxIdleTimeoutForQuicConnections, default 30 s) is lowered, so that "several periods" take seconds.

func init() { register("c03long", c03LongChild) }

type c03LongRes struct {
	Idx     int    `json:"idx"`
	Shape   string `json:"shape"`
	Hops    int    `json:"hops"`
	Want    int64  `json:"want"`
	Read    int64  `json:"read"`
	Bad     int64  `json:"bad"`
	EOF     bool   `json:"eof"`
	Err     string `json:"err"`
	AfterMs int64  `json:"after_ms"` // time between the half-close and the end of the read
	Setup   string `json:"setup,omitempty"`
}

func c03LongChild(_ string, args []string) {
	// args: seed n idleMs out
	seed, _ := strconv.ParseInt(args[0], 10, 64)
	n, _ := strconv.Atoi(args[1])
	idleMs, _ := strconv.Atoi(args[2])
	out := args[3]
	netceptor.MaxIdleTimeoutForQuicConnections = time.Duration(idleMs) * time.Millisecond
	idle := netceptor.MaxIdleTimeoutForQuicConnections
	var mu sync.Mutex
	results := []c03LongRes{}
	var wg sync.WaitGroup
	for i := 0; i < n; i++ {
		wg.Add(1)
		go func(i int) {
			defer wg.Done()
			rng := rand.New(rand.NewSource(seed*7919 + int64(i)))
			res := c03LongRes{Idx: i, Bad: -1}
			defer func() { mu.Lock(); results = append(results, res); mu.Unlock() }()
			hops := 1 + i%2
			res.Hops = hops
			res.Shape = []string{"dialer-half-closes-then-reads", "listener-half-closes-then-reads", "dialer-reads-without-half-close"}[i%3]
			m := mesh.New(mesh.DefaultConsts(), seed+int64(i))
			defer m.Shutdown()
			ids := []string{"a", "b", "c"}[:hops+1]
			for _, id := range ids {
				m.AddNode(id)
			}
			for k := 0; k+1 < len(ids); k++ {
				m.Connect(ids[k], ids[k+1], 1, false)
			}
			a, b := m.Node(ids[0]).Inst(), m.Node(ids[len(ids)-1]).Inst()
			okc := false
			for k := 0; k < 100 && !okc; k++ {
				ctx, cancel := context.WithTimeout(context.Background(), 2*time.Second)
				_, _, err := a.Ping(ctx, b.NodeID(), 30)
				cancel()
				okc = err == nil
				if !okc {
					time.Sleep(100 * time.Millisecond) // "no route" returns at once while the mesh is still forming
				}
			}
			if !okc {
				res.Setup = "mesh did not form"
				return
			}
			li, err := b.Listen("ans", nil)
			if err != nil {
				res.Setup = "listen: " + err.Error()
				return
			}
			defer li.Close()
			dur := time.Duration(float64(idle) * (2.2 + rng.Float64()))
			chunk := 1 + rng.Intn(4000)
			pause := time.Duration(100+rng.Intn(300)) * time.Millisecond
			total := int64(dur/pause) * int64(chunk)
			res.Want = total
			sseed := uint64(rng.Int63()) | 1
			// the side that answers: reads the request to its end (or 1 byte when the reader does not half-close), then streams
			answer := func(c io.ReadWriteCloser, waitEOF bool) {
				if waitEOF {
					_, _ = io.Copy(io.Discard, c)
				} else {
					one := make([]byte, 1)
					_, _ = c.Read(one)
				}
				var off int64
				for off < total {
					if _, err := c.Write(prng.Bytes(sseed, off, chunk)); err != nil {
						return
					}
					off += int64(chunk)
					time.Sleep(pause)
				}
				_ = c.Close()
			}
			var prog atomic.Int64
			read := func(c io.ReadWriteCloser, halfClose bool) {
				_, _ = c.Write([]byte("q"))
				if halfClose {
					_ = c.Close()
				}
				t0 := time.Now()
				r := c03Read(c, sseed, total, &prog)
				res.AfterMs = time.Since(t0).Milliseconds()
				res.Read, res.Bad, res.EOF, res.Err = r.read, r.bad, r.eof, r.err
			}
			ctx, cancel := context.WithTimeout(context.Background(), 20*time.Second)
			defer cancel()
			switch i % 3 {
			case 0, 2:
				go func() {
					c, err := li.Accept()
					if err != nil {
						return
					}
					answer(c, i%3 == 0)
				}()
				c, err := a.DialContext(ctx, b.NodeID(), "ans", nil)
				if err != nil {
					res.Setup = "dial: " + err.Error()
					return
				}
				read(c, i%3 == 0)
				_ = c.CloseConnection()
			case 1:
				done := make(chan struct{})
				go func() {
					defer close(done)
					c, err := li.Accept()
					if err != nil {
						res.Setup = "accept: " + err.Error()
						return
					}
					hello := make([]byte, 5)
					if _, err := io.ReadFull(c, hello); err != nil {
						res.Setup = "accept: first bytes: " + err.Error()
						return
					}
					read(c, true)
				}()
				c, err := a.DialContext(ctx, b.NodeID(), "ans", nil)
				if err != nil {
					res.Setup = "dial: " + err.Error()
					return
				}
				// the listener only learns of the stream when the dialer writes
				_, _ = c.Write([]byte("hello"))
				answer(c, true)
				<-done
				_ = c.CloseConnection()
			}
		}(i)
	}
	wg.Wait()
	bb, _ := json.Marshal(results)
	_ = os.WriteFile(out, bb, 0o644)
	os.Exit(0)
}

func runC03Long(run *ev.Run, seed int64) {
	n := run.Pick(6, 30)
	idleMs := 3000
	work := workDir()
	out := filepath.Join(work, "c03long.json")
	cmd := exec.Command(os.Args[0], "c03long", "quick", fmt.Sprint(seed), fmt.Sprint(n), fmt.Sprint(idleMs), out)
	cmd.Env = append(os.Environ(), "GORACE=halt_on_error=0 exitcode=0 log_path="+filepath.Join(work, "race-c03long"))
	res := child.Run(cmd, filepath.Join(work, "c03long.out"), 10*time.Minute, nil)
	bb, err := os.ReadFile(out)
	if err != nil {
		if res.Fatal != "" && !res.TimedOut {
			run.Violation("crash:long-answer:"+child.FatalClass(res.Fatal), "the long-answer workload killed the process: "+res.Fatal+" at "+res.TopFrame, nil)
		} else {
			run.Inconclusive(fmt.Sprintf("C03 long answers: no result (timed out=%v)", res.TimedOut))
		}
		return
	}
	var rs []c03LongRes
	if json.Unmarshal(bb, &rs) != nil {
		run.Inconclusive("C03 long answers: unreadable result")
		return
	}
	for _, r := range rs {
		run.Eval(1)
		if r.Setup != "" {
			run.Inconclusive(fmt.Sprintf("C03 long answer %d: %s", r.Idx, r.Setup))
			continue
		}
		run.Count("long_answer_bytes_compared", r.Read)
		switch {
		case r.Bad >= 0:
			run.Violation("stream-corrupt:long-answer", fmt.Sprintf("long answer %d (%s, %d hops): byte %d differs", r.Idx, r.Shape, r.Hops, r.Bad), map[string]any{"result": r})
		case r.Err != "" || !r.EOF || r.Read != r.Want:
			run.Violation("stream-broken:long-answer:"+r.Shape, fmt.Sprintf("long answer %d (%s, %d hops, idle timeout %d ms, clean in-memory links): read %d of %d bytes in %d ms, eof=%v err=%q although the answering side kept sending", r.Idx, r.Shape, r.Hops, idleMs, r.Read, r.Want, r.AfterMs, r.EOF, r.Err), map[string]any{"result": r})
		default:
			run.Distinct(fmt.Sprintf("long-answer|%s|hops=%d", r.Shape, r.Hops))
			run.Count("long_answers_complete", 1)
		}
	}
}
