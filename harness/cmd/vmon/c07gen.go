package main

import (
	"bytes"
	"encoding/json"
	"fmt"
	"math/rand"
	"strings"
	"time"

	"verif/harness/internal/wire"
)

// c07Case is one hostile input: a sequence of datagrams delivered on one fresh session.
type c07Case struct {
	Idx   int      `json:"idx"`
	Label string   `json:"label"` // generator's class label (used in violation keys)
	Phase string   `json:"phase"` // "pre" (before the handshake) or "post"
	Msgs  [][]byte `json:"msgs"`
	Raw   []byte   `json:"raw,omitempty"` // TCP only: raw stream bytes instead of framed Msgs
	Flag  bool     `json:"flag"`          // semantic input: run the join probe right after it
	Decoded bool   `json:"decoded"`       // reaches a decoder (post-handshake, or type 1 pre-handshake)
	// SecondMsgs, if set, is a second hostile session opened while the first is still up: it completes the
	// handshake under SecondID and then sends SecondMsgs.
	SecondID   string   `json:"second_id,omitempty"`
	SecondMsgs [][]byte `json:"second_msgs,omitempty"`
	uids       []string
}

var jsonSubst = []string{`null`, `true`, `false`, `0`, `-1`, `1e308`, `1.5`, `""`, `"x"`, `[]`, `[1]`, `{}`, `{"a":1}`, `{"a":"b"}`, `18446744073709551615`, `-0.0`}

func jobj(fields [][2]string) []byte {
	sb := strings.Builder{}
	sb.WriteString("{")
	for i, f := range fields {
		if i > 0 {
			sb.WriteString(",")
		}
		sb.WriteString(`"` + f[0] + `":` + f[1])
	}
	sb.WriteString("}")
	return []byte(sb.String())
}

func routeFields(uid, origin, fwd string, seq int) [][2]string {
	return [][2]string{
		{"NodeID", fmt.Sprintf("%q", origin)},
		{"UpdateID", fmt.Sprintf("%q", uid)},
		{"UpdateEpoch", "5"},
		{"UpdateSequence", fmt.Sprint(seq)},
		{"Connections", `{"phz":1}`},
		{"ForwardingNode", fmt.Sprintf("%q", fwd)},
		{"SuspectedDuplicate", "0"},
	}
}

func advertFields(origin string) [][2]string {
	return [][2]string{
		{"NodeID", fmt.Sprintf("%q", origin)},
		{"Service", `"svc"`},
		{"Time", `"2030-01-01T00:00:00Z"`},
		{"ConnType", "1"},
		{"Tags", `{"a":"b"}`},
		{"WorkCommands", "null"},
		{"Cancel", "false"},
	}
}

func typed(t byte, body []byte) []byte { return append([]byte{t}, body...) }

// genC07 builds the deterministic case list. hID(i) is the identity the hostile session
// of case i uses ("h<i>"); target is the target node's id.
func genC07(seed int64, thorough bool, target string) []*c07Case {
	rng := rand.New(rand.NewSource(seed*31337 + 7))
	cases := []*c07Case{}
	var curUIDs []string
	add := func(label, phase string, flag bool, msgs ...[]byte) *c07Case {
		c := &c07Case{Idx: len(cases), Label: label, Phase: phase, Msgs: msgs, Flag: flag}
		c.Decoded = phase == "post" || (len(msgs) > 0 && len(msgs[0]) > 0 && msgs[0][0] == 1)
		c.uids = curUIDs
		curUIDs = nil
		cases = append(cases, c)
		return c
	}
	uid := func() string {
		u := fmt.Sprintf("u%08x%04d", rng.Uint32(), len(cases))
		curUIDs = append(curUIDs, u)
		return u
	}
	h := func() string { return fmt.Sprintf("h%d", len(cases)) }
	rnd := func(n int) []byte {
		b := make([]byte, n)
		rng.Read(b)
		return b
	}
	// 1. length sweep x first-byte class, both phases
	lens := []int{}
	for l := 0; l <= 40; l++ {
		lens = append(lens, l)
	}
	lens = append(lens, 255, 16384, 65535)
	for _, phase := range []string{"pre", "post"} {
		for _, l := range lens {
			for _, fb := range []int{-1, 0, 1, 2, 3, 0x7b} {
				if l == 0 && fb != -1 {
					continue
				}
				b := rnd(l)
				lab := "rnd"
				if fb >= 0 && l > 0 {
					b[0] = byte(fb)
					lab = fmt.Sprintf("t%d", fb)
				}
				if fb == 0 && l > 0 {
					for i := range b {
						b[i] = 0
					}
					lab = "zeros"
				}
				add(fmt.Sprintf("len:%d:%s", l, lab), phase, false, b)
			}
		}
	}
	// 2. every type byte, with an empty body, a JSON-looking body and a data-looking body
	for _, phase := range []string{"pre", "post"} {
		for t := 0; t < 256; t++ {
			add(fmt.Sprintf("type:%d:empty", t), phase, false, []byte{byte(t)})
			add(fmt.Sprintf("type:%d:json", t), phase, false, typed(byte(t), jobj(routeFields(uid(), "phx", h(), 1))))
			if t%8 == 0 {
				add(fmt.Sprintf("type:%d:data", t), phase, false, append([]byte{byte(t)}, wire.EncodeData(5, "phx", target, "a", "b", []byte("xyz"))[1:]...))
			}
		}
	}
	// 3. routing update: every field x every JSON type, drop, duplicate key; both phases
	for _, phase := range []string{"pre", "post"} {
		base := func() [][2]string { return routeFields(uid(), "ph"+fmt.Sprint(len(cases)), h(), 3) }
		for fi := 0; fi < 7; fi++ {
			for _, sub := range jsonSubst {
				f := base()
				name := f[fi][0]
				f[fi][1] = sub
				add(fmt.Sprintf("route-field:%s:%s", name, sub), phase, false, typed(1, jobj(f)))
			}
			f := base()
			name := f[fi][0]
			f = append(f[:fi], f[fi+1:]...)
			add("route-field:"+name+":dropped", phase, false, typed(1, jobj(f)))
			f = base()
			f = append(f, [2]string{name, `"dup"`})
			add("route-field:"+name+":dupkey", phase, false, typed(1, jobj(f)))
		}
		for _, body := range []string{``, `null`, `[]`, `"s"`, `1`, `{`, `{"NodeID":`, `{}`, strings.Repeat("[", 5000), strings.Repeat(`{"a":`, 3000), "\x00\x01\x02", `{"NodeID":"a","Connections":{"b":"c"}}`, `{"Connections":[1,2]}`, `{"Connections":{"":1}}`} {
			lab := body
			if len(lab) > 12 {
				lab = lab[:12] + "~"
			}
			add("route-body:"+lab, phase, false, typed(1, []byte(body)))
		}
	}
	// 4. advertisement: every field x every JSON type, and body shapes (post-handshake: decoded)
	for _, phase := range []string{"pre", "post"} {
		for fi := 0; fi < 7; fi++ {
			for _, sub := range jsonSubst {
				f := advertFields("pa" + fmt.Sprint(len(cases)))
				name := f[fi][0]
				f[fi][1] = sub
				add(fmt.Sprintf("advert-field:%s:%s", name, sub), phase, false, typed(2, jobj(f)))
			}
			f := advertFields("pa" + fmt.Sprint(len(cases)))
			name := f[fi][0]
			f = append(f[:fi], f[fi+1:]...)
			add("advert-field:"+name+":dropped", phase, false, typed(2, jobj(f)))
		}
		for _, body := range []string{``, `null`, `{}`, `[]`, `"s"`, `1`, `{`, `{"Cancel":true}`, `{"Cancel":false}`, `{"NodeID":null}`, `{"ServiceAdvertisement":null}`, strings.Repeat("[", 5000)} {
			lab := body
			if len(lab) > 24 {
				lab = lab[:12] + "~"
			}
			add("advert-body:"+lab, phase, phase == "post", typed(2, []byte(body)))
		}
	}
	// 5. semantic absurdities (post-handshake)
	sem := func(label string, msgs ...[]byte) { add("route-semantic:"+label, "post", true, msgs...) }
	ru := func(origin, fwd string, epoch, seq uint64, conns map[string]float64) []byte {
		return wire.EncodeRoute(&wire.Route{NodeID: origin, UpdateID: uid(), UpdateEpoch: epoch, UpdateSequence: seq, Connections: conns, ForwardingNode: fwd})
	}
	{
		k := len(cases)
		a, b := fmt.Sprintf("pn%da", k), fmt.Sprintf("pn%db", k)
		sem("negcost-cycle", ru(a, h(), 5, 1, map[string]float64{b: -1, h(): 1}), ru(b, h(), 5, 1, map[string]float64{a: -1}))
		k = len(cases)
		a, b = fmt.Sprintf("pn%da", k), fmt.Sprintf("pn%db", k)
		sem("negcost-cycle-reachable", ru(h(), h(), 6, 2, map[string]float64{target: 1, a: 1}), ru(a, h(), 5, 1, map[string]float64{b: -2, h(): 1}), ru(b, h(), 5, 1, map[string]float64{a: -2}))
		k = len(cases)
		a, b = fmt.Sprintf("pz%da", k), fmt.Sprintf("pz%db", k)
		sem("zerocost-cycle", ru(h(), h(), 6, 2, map[string]float64{target: 1, a: 0}), ru(a, h(), 5, 1, map[string]float64{b: 0, h(): 0}), ru(b, h(), 5, 1, map[string]float64{a: 0}))
		sem("negcost-to-target", ru(h(), h(), 6, 2, map[string]float64{target: -5}))
		sem("negcost-edge", ru(fmt.Sprintf("pq%d", len(cases)), h(), 5, 1, map[string]float64{target: -3, "w": -3}))
		sem("hugecost", ru(fmt.Sprintf("pq%d", len(cases)), h(), 5, 1, map[string]float64{target: 1e308, "x": 1e308}), ru("x", h(), 5, 1, map[string]float64{"y": 1e308}))
		sem("self-origin-epoch0", ru(target, h(), 0, 1, map[string]float64{"x": 1}))
		sem("self-origin-epochmax", ru(target, h(), ^uint64(0), 1, map[string]float64{"x": 1}))
		sem("self-origin-suspected1", wire.EncodeRoute(&wire.Route{NodeID: target, UpdateID: uid(), UpdateEpoch: 7, UpdateSequence: 1, ForwardingNode: h(), SuspectedDuplicate: 1}))
		sem("suspected-unknown-origin", wire.EncodeRoute(&wire.Route{NodeID: "nobody", UpdateID: uid(), UpdateEpoch: 7, UpdateSequence: 1, ForwardingNode: h(), SuspectedDuplicate: 99}))
		sem("empty-connections", ru(fmt.Sprintf("pe%d", len(cases)), h(), 5, 1, map[string]float64{}))
		sem("nil-connections", typed(1, jobj([][2]string{{"NodeID", `"pnil"`}, {"UpdateID", fmt.Sprintf("%q", uid())}, {"UpdateEpoch", "5"}, {"UpdateSequence", "1"}, {"ForwardingNode", fmt.Sprintf("%q", h())}})))
		big := map[string]float64{}
		for i := 0; i < 2000; i++ {
			big[fmt.Sprintf("big%d", i)] = float64(i%7 + 1)
		}
		sem("2k-connections", ru(fmt.Sprintf("pb%d", len(cases)), h(), 5, 1, big))
		sem("epochmax-seqmax", ru(fmt.Sprintf("pm%d", len(cases)), h(), ^uint64(0), ^uint64(0), map[string]float64{"x": 1}))
		sem("empty-origin", ru("", h(), 5, 1, map[string]float64{"x": 1}))
		sem("long-origin", ru(strings.Repeat("L", 40000), h(), 5, 1, map[string]float64{"x": 1}))
		sem("nul-origin", ru("a\x00b", h(), 5, 1, map[string]float64{"x\x00": 1}))
		sem("origin-is-forwarder-drops-target", ru(h(), h(), 6, 9, map[string]float64{"x": 1}))
		sem("forwarder-changes", ru("px", "someoneelse", 5, 1, map[string]float64{"x": 1}))
		sem("cost-disagreement", ru(h(), h(), 6, 9, map[string]float64{target: 42}))
	}
	asem := func(label string, msgs ...[]byte) { add("advert-semantic:"+label, "post", true, msgs...) }
	asem("cancel-unknown", wire.EncodeAdvert(&wire.Advert{NodeID: "ghost", Service: "nosvc", Cancel: true}))
	asem("time-far-future", typed(2, jobj([][2]string{{"NodeID", `"pf"`}, {"Service", `"s"`}, {"Time", `"9999-12-31T23:59:59Z"`}, {"ConnType", "0"}})))
	asem("time-zero", typed(2, jobj([][2]string{{"NodeID", `"pf"`}, {"Service", `"s"`}, {"Time", `"0001-01-01T00:00:00Z"`}, {"ConnType", "0"}})))
	asem("time-garbage", typed(2, jobj([][2]string{{"NodeID", `"pf"`}, {"Service", `"s"`}, {"Time", `"yesterday"`}})))
	asem("for-target", wire.EncodeAdvert(&wire.Advert{NodeID: target, Service: "control", ConnType: 1}))
	asem("cancel-target", wire.EncodeAdvert(&wire.Advert{NodeID: target, Service: "control", Cancel: true}))
	asem("empty-names", wire.EncodeAdvert(&wire.Advert{NodeID: "", Service: ""}))
	bigTags := map[string]string{}
	for i := 0; i < 3000; i++ {
		bigTags[fmt.Sprintf("k%d", i)] = strings.Repeat("v", 10)
	}
	asem("big-tags", wire.EncodeAdvert(&wire.Advert{NodeID: "pt", Service: "s", Tags: bigTags}))
	// 5b. advertisement / withdrawal histories of a phantom owner on one session (replays, stale ads, re-adverts)
	{
		t0 := time.Date(2031, 5, 1, 12, 0, 0, 0, time.UTC)
		adv := func(owner, svc string, at time.Time, cancel bool) []byte {
			return wire.EncodeAdvert(&wire.Advert{NodeID: owner, Service: svc, Time: at, ConnType: 0, Tags: map[string]string{"g": "1"}, Cancel: cancel})
		}
		o := func() string { return fmt.Sprintf("po%d", len(cases)) }
		x := o()
		asem("seq:cancel-replayed", adv(x, "s", t0, true), adv(x, "s", t0, true))
		x = o()
		asem("seq:cancel-then-older-ad", adv(x, "s", t0, true), adv(x, "s", t0.Add(-time.Second), false))
		x = o()
		asem("seq:ad-cancel-old-ad", adv(x, "s", t0, false), adv(x, "s", t0.Add(time.Second), true), adv(x, "s", t0, false), adv(x, "s", t0.Add(time.Second), true))
		x = o()
		asem("seq:ad-replayed", adv(x, "s", t0, false), adv(x, "s", t0, false), adv(x, "s", t0.Add(-time.Hour), false))
		x = o()
		asem("seq:cancel-then-newer-ad-then-cancel", adv(x, "s", t0, true), adv(x, "s", t0.Add(time.Minute), false), adv(x, "s", t0.Add(2*time.Minute), true), adv(x, "s", t0.Add(2*time.Minute), true))
		x = o()
		asem("seq:two-services-cancel-one-twice", adv(x, "s", t0, false), adv(x, "t", t0, false), adv(x, "s", t0.Add(time.Second), true), adv(x, "s", t0.Add(time.Second), true), adv(x, "t", t0, false))
	}
	// 5c. two hostile sessions: the first talks about an origin, the second then connects under that very id
	{
		two := func(label string, secondID func(k int) string, conns ...string) {
			k := len(cases)
			p := fmt.Sprintf("pp%d", k)
			msgs := [][]byte{}
			for i, cj := range conns {
				f := routeFields(uid(), p, h(), i+1)
				g := [][2]string{}
				for _, kv := range f {
					if kv[0] == "Connections" {
						if cj == "absent" {
							continue
						}
						kv[1] = cj
					}
					g = append(g, kv)
				}
				msgs = append(msgs, typed(1, jobj(g)))
			}
			c := add("two-sessions:"+label, "post", true, msgs...)
			c.SecondID = secondID(k)
			c.SecondMsgs = [][]byte{wire.EncodeRoute(&wire.Route{NodeID: c.SecondID, UpdateID: uid(), UpdateEpoch: 6, UpdateSequence: 2, Connections: map[string]float64{target: 1, "far": 2}, ForwardingNode: c.SecondID})}
		}
		asOrigin := func(k int) string { return fmt.Sprintf("pp%d", k) }
		two("origin-then-peer:conns", asOrigin, `{"q":1}`)
		two("origin-then-peer:null", asOrigin, `null`)
		two("origin-then-peer:conns-then-null", asOrigin, `{"q":1}`, `null`)
		two("origin-then-peer:conns-then-empty", asOrigin, `{"q":1}`, `{}`)
		two("origin-then-peer:conns-then-absent", asOrigin, `{"q":1}`, `absent`)
		two("origin-then-peer:lists-target", asOrigin, fmt.Sprintf(`{%q:3}`, target))
		two("origin-then-peer:lists-target-then-null", asOrigin, fmt.Sprintf(`{%q:3}`, target), `null`)
		two("same-id-twice", func(k int) string { return fmt.Sprintf("h%d", k) }, `{"q":1}`)
		two("second-as-target", func(int) string { return target }, `{"q":1}`)
		two("second-empty-id", func(int) string { return "" }, `{"q":1}`)
		// a session announcing the id of a well-behaved node that is connected to the target right now: it is
		// refused, and the refusal must leave the genuine session (and the routes through it) alone
		two("second-as-connected-peer-w", func(int) string { return "w" }, `{"q":1}`)
		for _, peer := range []string{"w", "v"} {
			hs := func(seq uint64) []byte {
				return wire.EncodeRoute(&wire.Route{NodeID: peer, UpdateID: uid(), UpdateEpoch: 6, UpdateSequence: seq, Connections: map[string]float64{target: 1}, ForwardingNode: peer})
			}
			add("handshake-as-connected-peer:"+peer, "pre", true, hs(1))
			add("handshake-as-connected-peer:"+peer+":x3", "pre", true, hs(1), hs(2), hs(3))
		}
	}
	// 6. data packets: header corruptions, reserved services with garbage
	dsem := func(label string, flag bool, msgs ...[]byte) { add("data:"+label, "post", flag, msgs...) }
	for l := 1; l < 36; l += 5 {
		dsem(fmt.Sprintf("short%d", l), false, wire.EncodeData(5, "a", "b", "c", "d", nil)[:l])
	}
	unreachBody, _ := json.Marshal(wire.Unreach{FromNode: target, ToNode: "w", FromService: "x", ToService: "y", Problem: "service unknown"})
	for _, ttl := range []byte{0, 1, 255} {
		dsem(fmt.Sprintf("unknown-hashes-ttl%d", ttl), false, wire.EncodeData(ttl, "neverheard", "neverheard2", "s", "t", []byte("p")))
		dsem(fmt.Sprintf("from-target-to-target-ttl%d", ttl), false, wire.EncodeData(ttl, target, target, "s", "t", []byte("p")))
		dsem(fmt.Sprintf("ping-garbage-ttl%d", ttl), false, wire.EncodeData(ttl, target, target, "x", "ping", rnd(50)))
		dsem(fmt.Sprintf("ping-from-unknown-ttl%d", ttl), false, wire.EncodeData(ttl, "neverheard", target, "x", "ping", nil))
		dsem(fmt.Sprintf("unreach-garbage-ttl%d", ttl), false, wire.EncodeData(ttl, target, target, "unreach", "unreach", rnd(40)))
		dsem(fmt.Sprintf("unreach-null-ttl%d", ttl), false, wire.EncodeData(ttl, target, target, "x", "unreach", []byte("null")))
		dsem(fmt.Sprintf("unreach-valid-ttl%d", ttl), false, wire.EncodeData(ttl, target, target, "x", "unreach", unreachBody))
		dsem(fmt.Sprintf("unreach-types-ttl%d", ttl), false, wire.EncodeData(ttl, target, target, "x", "unreach", []byte(`{"FromNode":1,"Problem":[]}`)))
		dsem(fmt.Sprintf("to-w-unknown-service-ttl%d", ttl), false, wire.EncodeData(ttl, target, "w", "x", "nosuch", []byte("q")))
		dsem(fmt.Sprintf("to-w-from-w-ttl%d", ttl), false, wire.EncodeData(ttl, "w", "w", "x", "ping", nil))
		dsem(fmt.Sprintf("svc-ff-ttl%d", ttl), false, wire.EncodeData(ttl, target, target, "\xff\xff\xff\xff\xff\xff\xff\xff", "\xff\xff\xff\xff\xff\xff\xff\xff", nil))
		dsem(fmt.Sprintf("maxpayload-ttl%d", ttl), false, wire.EncodeData(ttl, target, "w", "x", "ping", make([]byte, 65000)))
	}
	{
		d := wire.EncodeData(9, target, "w", "x", "ping", nil)
		d[2], d[3] = 0xff, 0xff
		dsem("reserved-bytes-set", false, d)
	}
	// 6b. data packets: the full product of source / destination node and service classes, including
	// the reserved services on both sides and the target's own id as the source
	{
		nodes := []string{target, "SELF", "w", "neverheard", ""}
		fromSvcs := []string{"ping", "unreach", "x", ""}
		toSvcs := []string{"ping", "unreach", "control", "nosuch", ""}
		for _, fn := range nodes {
			for _, tn := range nodes {
				for _, fs := range fromSvcs {
					msgs := [][]byte{}
					f, t := fn, tn
					if f == "SELF" {
						f = h()
					}
					if t == "SELF" {
						t = h()
					}
					for _, ts := range toSvcs {
						for _, ttl := range []byte{1, 30} {
							msgs = append(msgs, wire.EncodeData(ttl, f, t, fs, ts, []byte("{}")))
						}
					}
					lf, lt := fn, tn
					if lf == target {
						lf = "TARGET"
					}
					if lt == target {
						lt = "TARGET"
					}
					dsem(fmt.Sprintf("product:from=%s/%s:to=%s", lf, fs, lt), false, msgs...)
				}
			}
		}
	}
	// 6c. a handshake that is refused, followed at once by a burst of further datagrams on the same session
	for _, fwd := range []string{target, ""} {
		for _, nb := range []int{3, 12, 60} {
			msgs := [][]byte{wire.EncodeRoute(&wire.Route{NodeID: fwd, UpdateID: uid(), UpdateEpoch: 6, UpdateSequence: 1, Connections: map[string]float64{target: 1}, ForwardingNode: fwd})}
			for i := 0; i < nb; i++ {
				msgs = append(msgs, wire.EncodeRoute(&wire.Route{NodeID: h(), UpdateID: uid(), UpdateEpoch: 6, UpdateSequence: uint64(i + 2), Connections: map[string]float64{target: 1}, ForwardingNode: h()}))
			}
			lab := "own-id"
			if fwd == "" {
				lab = "empty-id"
			}
			for rep := 0; rep < 4; rep++ {
				add(fmt.Sprintf("refused-then-burst:%s:%d", lab, nb), "pre", true, msgs...)
			}
		}
	}
	// 7. rejects
	for _, phase := range []string{"pre", "post"} {
		add("reject:plain", phase, false, []byte{3, '[', ']'})
		add("reject:bare", phase, false, []byte{3})
		add("reject:garbage", phase, false, typed(3, rnd(30)))
	}
	// 8. sequences (thorough): 2-5 messages drawn from the single-message pool
	if thorough {
		pool := append([]*c07Case(nil), cases...)
		nseq := 8000
		for i := 0; i < nseq; i++ {
			n := 2 + rng.Intn(4)
			msgs := [][]byte{}
			labs := []string{}
			flag := false
			for j := 0; j < n; j++ {
				c := pool[rng.Intn(len(pool))]
				if len(c.Msgs) > 0 && len(c.Msgs[0]) > 30000 {
					continue
				}
				// re-key the copied messages: this session's identity and fresh update ids
				oldH := []byte(fmt.Sprintf("\"h%d\"", c.Idx))
				newH := []byte(fmt.Sprintf("\"h%d\"", len(cases)))
				for _, m := range c.Msgs {
					m2 := bytes.ReplaceAll(m, oldH, newH)
					for _, u := range c.uids {
						m2 = bytes.ReplaceAll(m2, []byte(u), []byte(fmt.Sprintf("s%08x%04d", rng.Uint32(), i%10000)))
					}
					msgs = append(msgs, m2)
				}
				labs = append(labs, c.Label)
				flag = flag || c.Flag
			}
			phase := "post"
			if rng.Intn(3) == 0 {
				phase = "pre"
			}
			add("seq["+strings.Join(labs, ",")+"]", phase, flag, msgs...)
		}
	}
	return cases
}

// tcpRawCases are framing abuses that only exist on a stream backend.
func tcpRawCases(start int) []*c07Case {
	out := []*c07Case{}
	add := func(label string, raw []byte) {
		out = append(out, &c07Case{Idx: start + len(out), Label: "tcp-frame:" + label, Phase: "pre", Raw: raw, Decoded: true})
	}
	add("zero-length-frame", []byte{0, 0})
	add("zero-length-frames-x3", []byte{0, 0, 0, 0, 0, 0})
	add("length-longer-than-data-then-close", []byte{0xff, 0x7f, 1, 2, 3})
	add("half-length-byte", []byte{0x10})
	add("max-frame", append([]byte{0xff, 0xff}, make([]byte, 65535)...))
	add("frame-then-zero", append(wire.Frame([]byte{1, '{', '}'}), 0, 0))
	add("many-tiny-frames", func() []byte {
		b := []byte{}
		for i := 0; i < 2000; i++ {
			b = append(b, 1, 0, byte(i))
		}
		return b
	}())
	return out
}
