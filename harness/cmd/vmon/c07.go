package main

import (
	"bufio"
	"context"
	"encoding/json"
	"fmt"
	"io"
	"net"
	"os"
	"os/exec"
	"path/filepath"
	"sort"
	"strconv"
	"strings"
	"sync"
	"time"

	"verif/harness/internal/child"
	"verif/harness/internal/ev"
	"verif/harness/internal/memnet"
	"verif/harness/internal/mesh"
	"verif/harness/internal/wire"

	"github.com/ansible/receptor/pkg/backends"
	"github.com/ansible/receptor/pkg/netceptor"
	"github.com/gorilla/websocket"
)

// C07 — no bytes from a backend peer can crash or wedge a node.

func init() {
	register("C07", runC07)
	register("c07child", c07Child)
}

const c07Target = "t"

func workDir() string {
	w := os.Getenv("VERIF_WORK")
	if w == "" {
		w = filepath.Join(ev.Root(), ".work", fmt.Sprintf("manual-%d", os.Getpid()))
	}
	_ = os.MkdirAll(w, 0o755)
	return w
}

// ---------------------------------------------------------------- child

type hostile interface {
	Send(b []byte) error
	Barrier() bool
	Close()
}

type memHostile struct{ s *memnet.Scripted }

func (h *memHostile) Send(b []byte) error {
	if !h.s.Deliver(b, 5*time.Second) {
		return fmt.Errorf("not taken")
	}
	return nil
}
func (h *memHostile) Barrier() bool { return h.s.Barrier(5 * time.Second) }
func (h *memHostile) Close()        { h.s.Close() }

type tcpHostile struct{ c net.Conn }

func (h *tcpHostile) Send(b []byte) error {
	if len(b) > 65535 {
		return nil
	}
	_ = h.c.SetWriteDeadline(time.Now().Add(5 * time.Second))
	_, err := h.c.Write(wire.Frame(b))
	return err
}
func (h *tcpHostile) Barrier() bool { time.Sleep(30 * time.Millisecond); return true }
func (h *tcpHostile) Close()        { h.c.Close() }

type udpHostile struct{ c *net.UDPConn }

func (h *udpHostile) Send(b []byte) error {
	if len(b) > 65000 {
		return nil
	}
	_, err := h.c.Write(b)
	return err
}
func (h *udpHostile) Barrier() bool { time.Sleep(30 * time.Millisecond); return true }
func (h *udpHostile) Close()        { h.c.Close() }

type wsHostile struct{ c *websocket.Conn }

func (h *wsHostile) Send(b []byte) error {
	_ = h.c.SetWriteDeadline(time.Now().Add(5 * time.Second))
	return h.c.WriteMessage(websocket.BinaryMessage, b)
}
func (h *wsHostile) Barrier() bool { time.Sleep(30 * time.Millisecond); return true }
func (h *wsHostile) Close()        { h.c.Close() }

// extHostile talks to the target through an ExternalBackend session over an in-process socket pair
// (the "embedded backend" of the statement): framed like the stream backends.
type extHostile struct{ c net.Conn }

func (h *extHostile) Send(b []byte) error {
	if len(b) > 65535 {
		return nil
	}
	_ = h.c.SetWriteDeadline(time.Now().Add(5 * time.Second))
	_, err := h.c.Write(wire.Frame(b))
	return err
}
func (h *extHostile) Barrier() bool { time.Sleep(30 * time.Millisecond); return true }
func (h *extHostile) Close()        { h.c.Close() }

type c07Env struct {
	ext       *netceptor.ExternalBackend
	m         *mesh.Mesh
	t, w, v   *netceptor.Netceptor
	transport string
	addr      string
	gcount    int
	mu        sync.Mutex
	tOrigOnG  map[string]int // link id -> t-originated updates seen
}

func (e *c07Env) open(name string) (hostile, error) {
	switch e.transport {
	case "mem":
		s := memnet.NewScripted(name)
		if err := e.t.AddBackend(memnet.NewOneShot(s)); err != nil {
			return nil, err
		}
		return &memHostile{s}, nil
	case "tcp":
		c, err := net.DialTimeout("tcp", e.addr, 5*time.Second)
		if err != nil {
			return nil, err
		}
		return &tcpHostile{c}, nil
	case "udp":
		ra, _ := net.ResolveUDPAddr("udp", e.addr)
		c, err := net.DialUDP("udp", nil, ra)
		if err != nil {
			return nil, err
		}
		return &udpHostile{c}, nil
	case "ext":
		a, b := net.Pipe()
		// drain what the node writes to us (net.Pipe is unbuffered)
		go func() { _, _ = io.Copy(io.Discard, b) }()
		e.ext.NewConnection(netceptor.MessageConnFromNetConn(a), true)
		return &extHostile{b}, nil
	case "ws":
		d := websocket.Dialer{HandshakeTimeout: 5 * time.Second}
		c, _, err := d.Dial("ws://"+e.addr+"/", nil)
		if err != nil {
			return nil, err
		}
		return &wsHostile{c}, nil
	}
	return nil, fmt.Errorf("unknown transport")
}

func pingOK(n *netceptor.Netceptor, target string, attempts int) (bool, string) {
	last := ""
	for i := 0; i < attempts; i++ {
		ctx, cancel := context.WithTimeout(context.Background(), 12*time.Second)
		_, _, err := n.Ping(ctx, target, 30)
		cancel()
		if err == nil {
			return true, ""
		}
		last = err.Error()
		time.Sleep(300 * time.Millisecond)
	}
	return false, last
}

// joinProbe attaches a fresh well-behaved node to the target and requires that it can
// ping w through the target within a bound counted in updates originated by the target.
// advertProbe: the target must still answer Status() and must still learn a brand-new service
// advertisement of the well-behaved node w within a bounded number of advertisement rounds.
func (e *c07Env) advertProbe() (bool, string) {
	e.gcount++
	svc := fmt.Sprintf("p%d", e.gcount)
	pc, err := e.w.ListenPacketAndAdvertise(svc, map[string]string{"probe": svc})
	if err != nil {
		return true, ""
	}
	defer pc.Close()
	deadline := time.Now().Add(40 * time.Second)
	for time.Now().Before(deadline) {
		stc := make(chan bool, 1)
		go func() {
			st := e.t.Status()
			found := false
			for _, a := range st.Advertisements {
				if a.NodeID == "w" && a.Service == svc {
					found = true
				}
			}
			stc <- found
		}()
		select {
		case found := <-stc:
			if found {
				return true, ""
			}
		case <-time.After(20 * time.Second):
			return false, "the target's Status() did not return within 20 s"
		}
		time.Sleep(100 * time.Millisecond)
	}
	return false, "the target did not learn a new service advertisement of its well-behaved neighbour w within 40 s (about 50 advertisement rounds)"
}

// transportProbe: a well-behaved peer connecting over the very transport the hostile sessions used must still
// be accepted: it sends the handshake (repeated like a real node does) and must be listed among the target's
// connections within a bound. The other probes run over the in-memory links and would not notice a listener
// that no longer hands over datagrams.
func (e *c07Env) transportProbe() (bool, string) {
	e.gcount++
	name := fmt.Sprintf("tp%d", e.gcount)
	for attempt := 0; attempt < 3; attempt++ {
		h, err := e.open(name)
		if err != nil {
			return false, "cannot open a session: " + err.Error()
		}
		for i := 0; i < 24; i++ {
			_ = h.Send(wire.EncodeRoute(&wire.Route{NodeID: name, UpdateID: fmt.Sprintf("tp%s-%d-%d", name, attempt, i), UpdateEpoch: 6, UpdateSequence: uint64(i + 1), Connections: map[string]float64{c07Target: 1}, ForwardingNode: name}))
			time.Sleep(250 * time.Millisecond)
			stc := make(chan bool, 1)
			go func() {
				found := false
				for _, c := range e.t.Status().Connections {
					if c.NodeID == name {
						found = true
					}
				}
				stc <- found
			}()
			select {
			case found := <-stc:
				if found {
					h.Close()
					return true, ""
				}
			case <-time.After(20 * time.Second):
				h.Close()
				return false, "the target's Status() did not return within 20 s"
			}
		}
		h.Close()
	}
	return false, fmt.Sprintf("a well-behaved peer (%s) sending its handshake over %s was not accepted as a connection in 3 sessions x 24 handshake rounds", name, e.transport)
}

func (e *c07Env) joinProbe() (bool, string) {
	if ok, why := e.advertProbe(); !ok {
		return false, "adverts: " + why
	}
	if ok, why := e.transportProbe(); !ok {
		return false, "transport: " + why
	}
	e.gcount++
	gid := fmt.Sprintf("g%d", e.gcount)
	e.m.AddNode(gid)
	li := e.m.Connect(gid, c07Target, 1, false)
	defer func() {
		li.L.Down()
		e.m.StopNode(gid)
	}()
	g := e.m.Node(gid).Inst()
	start := time.Now()
	last := ""
	attempts := 0
	for {
		// short per-attempt timeout: the first pings can be lost legitimately while w has no route back yet
		ctx, cancel := context.WithTimeout(context.Background(), 1500*time.Millisecond)
		_, _, err := g.Ping(ctx, "w", 30)
		cancel()
		if err == nil {
			return true, ""
		}
		attempts++
		last = err.Error()
		e.mu.Lock()
		rounds := e.tOrigOnG[li.L.ID]
		e.mu.Unlock()
		if (rounds >= 14 && attempts >= 6) || time.Since(start) > 90*time.Second {
			return false, fmt.Sprintf("fresh node %s could not ping w through the target after %d target-originated update rounds (%.1fs): %s", gid, rounds, time.Since(start).Seconds(), last)
		}
		time.Sleep(100 * time.Millisecond)
	}
}

func appendLine(path, line string) {
	f, err := os.OpenFile(path, os.O_APPEND|os.O_CREATE|os.O_WRONLY|os.O_SYNC, 0o644)
	if err != nil {
		return
	}
	_, _ = f.WriteString(line + "\n")
	f.Close()
}

func c07Child(_ string, args []string) {
	// args: casesFile start end progressFile transport
	if len(args) < 5 {
		os.Exit(2)
	}
	var cases []*c07Case
	b, err := os.ReadFile(args[0])
	if err != nil {
		os.Exit(2)
	}
	if err := json.Unmarshal(b, &cases); err != nil {
		os.Exit(2)
	}
	start, _ := strconv.Atoi(args[1])
	end, _ := strconv.Atoi(args[2])
	progress := args[3]
	e := &c07Env{transport: args[4], tOrigOnG: map[string]int{}}
	c := mesh.DefaultConsts()
	c.Idle = 30 * time.Second
	c.ServiceAd = 800 * time.Millisecond
	e.m = mesh.New(c, 1)
	e.m.Net.Tap = func(te memnet.TapEvent) {
		if te.Dir != "send" || te.From != c07Target || len(te.Data) == 0 || te.Data[0] != 1 || !strings.HasSuffix(te.Link, "-"+c07Target) {
			return
		}
		r, err := wire.DecodeRoute(te.Data)
		if err != nil || r.NodeID != c07Target {
			return
		}
		e.mu.Lock()
		e.tOrigOnG[te.Link]++
		e.mu.Unlock()
	}
	e.m.AddNode(c07Target)
	e.m.AddNode("w")
	e.m.AddNode("v")
	e.m.Connect("w", c07Target, 1, false)
	e.m.Connect("v", c07Target, 1, false)
	e.t, e.w, e.v = e.m.Node(c07Target).Inst(), e.m.Node("w").Inst(), e.m.Node("v").Inst()
	lg := e.t.Logger
	switch e.transport {
	case "tcp":
		l, _ := backends.NewTCPListener("127.0.0.1:0", nil, lg)
		if err := e.t.AddBackend(l); err != nil {
			fmt.Println("listen:", err)
			os.Exit(2)
		}
		e.addr = l.GetAddr()
	case "udp":
		l, err := backends.NewUDPListener("127.0.0.1:0", lg)
		if err != nil {
			os.Exit(2)
		}
		if err := e.t.AddBackend(l); err != nil {
			os.Exit(2)
		}
		e.addr = l.LocalAddr().String()
	case "ext":
		eb, err := netceptor.NewExternalBackend()
		if err != nil {
			os.Exit(2)
		}
		if err := e.t.AddBackend(eb); err != nil {
			os.Exit(2)
		}
		e.ext = eb
	case "ws":
		l, _ := backends.NewWebsocketListener("127.0.0.1:0", nil, lg, nil, nil)
		if err := e.t.AddBackend(l); err != nil {
			os.Exit(2)
		}
		e.addr = l.GetAddr()
	}
	okc := false
	for i := 0; i < 100; i++ {
		if ok, _ := pingOK(e.w, "v", 1); ok {
			okc = true
			break
		}
	}
	if !okc {
		appendLine(progress, "SETUPFAIL")
		os.Exit(3)
	}
	appendLine(progress, "READY")
	sinceJoin := 0
	for i := start; i < end && i < len(cases); i++ {
		cs := cases[i]
		appendLine(progress, fmt.Sprintf("BEGIN %d", cs.Idx))
		name := fmt.Sprintf("h%d", cs.Idx)
		h, err := e.open(name)
		if err != nil {
			// the target no longer accepts sessions on this transport
			appendLine(progress, fmt.Sprintf("END %d wedge:accept %s", cs.Idx, strings.ReplaceAll(err.Error(), "\n", " ")))
			os.Exit(42)
		}
		if cs.Phase == "post" {
			_ = h.Send(wire.EncodeRoute(&wire.Route{NodeID: name, UpdateID: "hs" + name, UpdateEpoch: 6, UpdateSequence: 1, Connections: map[string]float64{c07Target: 1}, ForwardingNode: name}))
			h.Barrier()
		}
		if cs.Raw != nil {
			if th, ok := h.(*tcpHostile); ok {
				_ = th.c.SetWriteDeadline(time.Now().Add(5 * time.Second))
				_, _ = th.c.Write(cs.Raw)
			}
			if eh, ok := h.(*extHostile); ok {
				_ = eh.c.SetWriteDeadline(time.Now().Add(5 * time.Second))
				_, _ = eh.c.Write(cs.Raw)
			}
		}
		for _, m := range cs.Msgs {
			if err := h.Send(m); err != nil {
				break
			}
		}
		h.Barrier()
		var h2 hostile
		if cs.SecondMsgs != nil {
			if hh, err := e.open(name + "b"); err == nil {
				h2 = hh
				_ = h2.Send(wire.EncodeRoute(&wire.Route{NodeID: cs.SecondID, UpdateID: "hs2" + name, UpdateEpoch: 6, UpdateSequence: 1, Connections: map[string]float64{c07Target: 1}, ForwardingNode: cs.SecondID}))
				h2.Barrier()
				for _, m := range cs.SecondMsgs {
					if err := h2.Send(m); err != nil {
						break
					}
				}
				h2.Barrier()
			}
		}
		if cs.Flag {
			// keep the session (and so the edge target->hostile) up across the 100 ms
			// routing-table recalculation delay, so that semantic inputs are actually evaluated
			time.Sleep(300 * time.Millisecond)
		}
		h.Close()
		if h2 != nil {
			h2.Close()
		}
		if d := os.Getenv("C07_DWELL_MS"); d != "" {
			ms, _ := strconv.Atoi(d)
			time.Sleep(time.Duration(ms) * time.Millisecond)
		}
		ok, why := pingOK(e.w, "v", 3)
		if !ok {
			appendLine(progress, fmt.Sprintf("END %d wedge:forward %s", cs.Idx, why))
			os.Exit(42)
		}
		sinceJoin++
		if cs.Flag || sinceJoin >= 25 || i == end-1 {
			sinceJoin = 0
			ok, why := e.joinProbe()
			if !ok {
				appendLine(progress, fmt.Sprintf("END %d wedge:join %s", cs.Idx, why))
				os.Exit(42)
			}
			appendLine(progress, fmt.Sprintf("JOIN %d", cs.Idx))
		}
		appendLine(progress, fmt.Sprintf("END %d ok", cs.Idx))
	}
	appendLine(progress, "DONE")
	os.Exit(0)
}

// ---------------------------------------------------------------- parent

type c07Outcome struct {
	Case   *c07Case
	Status string // ok / crash / wedge:* / watchdog
	Detail string
	Join   bool
	Transport string
}

func readProgress(path string) (lines []string) {
	f, err := os.Open(path)
	if err != nil {
		return nil
	}
	defer f.Close()
	sc := bufio.NewScanner(f)
	sc.Buffer(make([]byte, 1<<20), 1<<22)
	for sc.Scan() {
		lines = append(lines, sc.Text())
	}
	return lines
}

// runC07Partition drives children over cases[lo:hi] until all are consumed.
func runC07Partition(work string, part int, transport string, casesFile string, byIdx map[int]*c07Case, order []int, out chan<- c07Outcome) {
	pos := 0
	gen := 0
	for pos < len(order) {
		gen++
		// children take a contiguous range of positions in the shared file: we write a per-partition file
		pf := filepath.Join(work, fmt.Sprintf("c07-%s-p%d-g%d.cases.json", transport, part, gen))
		sub := []*c07Case{}
		for _, idx := range order[pos:] {
			sub = append(sub, byIdx[idx])
		}
		b, _ := json.Marshal(sub)
		_ = os.WriteFile(pf, b, 0o644)
		progress := filepath.Join(work, fmt.Sprintf("c07-%s-p%d-g%d.progress", transport, part, gen))
		outFile := filepath.Join(work, fmt.Sprintf("c07-%s-p%d-g%d.out", transport, part, gen))
		cmd := exec.Command(os.Args[0], "c07child", "quick", pf, "0", fmt.Sprint(len(sub)), progress, transport)
		cmd.Env = append(os.Environ(), "GORACE=halt_on_error=0 exitcode=0 log_path="+filepath.Join(work, fmt.Sprintf("race-c07-%s-p%d-g%d", transport, part, gen)))
		lastN, lastT := 0, time.Now()
		res := child.Run(cmd, outFile, 40*time.Minute, func() bool {
			n := len(readProgress(progress))
			if n != lastN {
				lastN, lastT = n, time.Now()
			}
			return time.Since(lastT) > 4*time.Minute
		})
		lines := readProgress(progress)
		begun := -1
		consumed := 0
		ready := false
		joined := map[int]bool{}
		for _, ln := range lines {
			f := strings.Fields(ln)
			if len(f) == 0 {
				continue
			}
			switch f[0] {
			case "READY":
				ready = true
			case "BEGIN":
				begun, _ = strconv.Atoi(f[1])
			case "JOIN":
				j, _ := strconv.Atoi(f[1])
				joined[j] = true
			case "END":
				idx, _ := strconv.Atoi(f[1])
				st := f[2]
				det := strings.Join(f[3:], " ")
				out <- c07Outcome{Case: byIdx[idx], Status: st, Detail: det, Join: joined[idx], Transport: transport}
				consumed++
				begun = -1
			}
		}
		if !ready {
			out <- c07Outcome{Case: nil, Status: "setupfail", Detail: "child did not become ready: " + res.Fatal, Transport: transport}
			return
		}
		if begun >= 0 {
			// the child died (or hung) inside case `begun`
			st := "crash"
			det := child.FatalClass(res.Fatal) + " at " + res.TopFrame + " :: " + res.Fatal
			if res.TimedOut {
				st = "watchdog"
				det = "child made no progress; goroutine dump in " + outFile
			} else if res.Fatal == "" {
				det = fmt.Sprintf("child exited with code %d without a fatal line (%s)", res.ExitCode, outFile)
			}
			// keep the output of crashing children for the witness
			keep := filepath.Join(ev.Root(), ".work", "replay", filepath.Base(outFile))
			_ = os.MkdirAll(filepath.Dir(keep), 0o755)
			if data, err := os.ReadFile(outFile); err == nil {
				if len(data) > 200000 {
					data = data[:200000]
				}
				_ = os.WriteFile(keep, data, 0o644)
			}
			culprit := begun
			if st == "crash" {
				// A dying Go process keeps running other goroutines for a moment, so the case that
				// killed it may be one of the last few: re-run the candidates singly, with a dwell.
				cands := []int{begun}
				for k := pos + consumed - 1; k >= pos && k >= pos+consumed-2; k-- {
					cands = append(cands, order[k])
				}
				confirmed := -1
				for ci, cand := range cands {
					if c07Single(work, fmt.Sprintf("%s-p%d-g%d-c%d", transport, part, gen, ci), transport, byIdx[cand]) {
						confirmed = cand
						break
					}
				}
				if confirmed >= 0 {
					culprit = confirmed
					det += " (confirmed by a single-case re-run)"
				} else {
					det += " (not reproduced by single-case re-runs)"
				}
			}
			out <- c07Outcome{Case: byIdx[culprit], Status: st, Detail: det + " [output: " + keep + "]", Transport: transport}
			consumed++
		}
		if consumed == 0 {
			// no progress at all: avoid spinning
			out <- c07Outcome{Case: nil, Status: "setupfail", Detail: "child consumed no case: " + res.Fatal, Transport: transport}
			return
		}
		pos += consumed
	}
}

// c07Single runs one case alone in a fresh child with a dwell; true if the child died.
func c07Single(work, tag, transport string, cs *c07Case) bool {
	pf := filepath.Join(work, "c07-single-"+tag+".cases.json")
	b, _ := json.Marshal([]*c07Case{cs})
	_ = os.WriteFile(pf, b, 0o644)
	progress := filepath.Join(work, "c07-single-"+tag+".progress")
	cmd := exec.Command(os.Args[0], "c07child", "quick", pf, "0", "1", progress, transport)
	cmd.Env = append(os.Environ(), "C07_DWELL_MS=700", "GORACE=halt_on_error=0 exitcode=0 log_path="+filepath.Join(work, "race-c07-single-"+tag))
	res := child.Run(cmd, filepath.Join(work, "c07-single-"+tag+".out"), 5*time.Minute, nil)
	lines := readProgress(progress)
	done := false
	for _, l := range lines {
		if l == "DONE" {
			done = true
		}
	}
	return !done && res.Fatal != ""
}

func c07Class(label string) string {
	// generalise the label to its class: strip the per-case numbers of sequences
	if strings.HasPrefix(label, "seq[") {
		return "seq"
	}
	return label
}

func runC07(tier string, args []string) {
	run := ev.New("C07", tier, "exploration")
	run.Rule("systematic single-message set (every length 0-40/255/16K/64K x first-byte class, every type byte, every routing-update and advertisement field x JSON type, body shapes, semantic absurdities, data-header corruptions, rejects; pre- and post-handshake) delivered on fresh sessions to a target node in a child process over memnet, over real TCP/UDP/websocket listeners and over an ExternalBackend session on a socket pair (+framing abuses on the two framed stream transports); thorough adds 8000 seeded sequences. After each input: ping w->v through the target; after flagged inputs and every 25: a fresh node must join and ping through the target. distinct_nontrivial = distinct (transport, phase, class label) of inputs that reached a decoder")
	run.Assume("hostile inputs never impersonate the probe nodes and never forge the target's real epoch in a duplicate notice (that is the protocol's own shutdown signal, C11)")
	work := workDir()
	cases := genC07(run.Seed, !run.Quick(), c07Target)
	byIdx := map[int]*c07Case{}
	for _, c := range cases {
		byIdx[c.Idx] = c
	}
	raws := tcpRawCases(len(cases) + 1000)
	for _, c := range raws {
		byIdx[c.Idx] = c
	}
	casesFile := filepath.Join(work, "c07-cases.json")
	out := make(chan c07Outcome, 1024)
	var wg sync.WaitGroup
	parts := 8
	if !run.Quick() {
		parts = 14
	}
	// memnet: all cases, split round-robin into partitions
	orders := make([][]int, parts)
	for i, c := range cases {
		orders[i%parts] = append(orders[i%parts], c.Idx)
	}
	for p := 0; p < parts; p++ {
		wg.Add(1)
		go func(p int) {
			defer wg.Done()
			runC07Partition(work, p, "mem", casesFile, byIdx, orders[p], out)
		}(p)
	}
	// real transports: a seeded sample (quick: 200 each; thorough: 2000 each) + TCP framing abuses
	perT := run.Pick(200, 2000)
	for ti, tr := range []string{"tcp", "udp", "ws", "ext"} {
		ord := []int{}
		step := len(cases) / perT
		if step < 1 {
			step = 1
		}
		for i := ti % step; i < len(cases) && len(ord) < perT; i += step {
			c := cases[i]
			if tr == "udp" && len(c.Msgs) > 0 && len(c.Msgs[0]) > 60000 {
				continue
			}
			ord = append(ord, c.Idx)
		}
		// always include the zero-length and semantic cases on every transport
		for _, c := range cases {
			if (strings.HasPrefix(c.Label, "len:0:") || c.Flag) && !strings.HasPrefix(c.Label, "seq[") {
				ord = append(ord, c.Idx)
			}
		}
		if tr == "tcp" || tr == "ext" {
			for _, c := range raws {
				ord = append(ord, c.Idx)
			}
		}
		sort.Ints(ord)
		// dedupe
		o2 := ord[:0]
		for i, v := range ord {
			if i == 0 || v != ord[i-1] {
				o2 = append(o2, v)
			}
		}
		wg.Add(1)
		go func(tr string, ord []int) {
			defer wg.Done()
			runC07Partition(work, 0, tr, casesFile, byIdx, ord, out)
		}(tr, o2)
	}
	go func() { wg.Wait(); close(out) }()
	sampled := 0
	for o := range out {
		if o.Case == nil {
			run.Eval(1)
			run.Inconclusive("C07 " + o.Transport + ": " + o.Detail)
			continue
		}
		run.Eval(1)
		run.Count("inputs_"+o.Transport+"_"+o.Case.Phase, 1)
		if o.Join {
			run.Count("join_probes", 1)
		}
		if o.Case.Decoded {
			run.Distinct(o.Transport + "|" + o.Case.Phase + "|" + c07Class(o.Case.Label))
		}
		switch {
		case o.Status == "ok":
		case o.Status == "watchdog":
			run.Inconclusive(fmt.Sprintf("C07 case %d (%s): %s", o.Case.Idx, o.Case.Label, o.Detail))
		case o.Status == "crash":
			run.Count("crashes", 1)
			run.Violation("crash:"+c07Class(o.Case.Label), fmt.Sprintf("%s/%s input %q killed the target process: %s", o.Transport, o.Case.Phase, o.Case.Label, o.Detail), map[string]any{"case": o.Case, "transport": o.Transport, "detail": o.Detail})
		case strings.HasPrefix(o.Status, "wedge"):
			run.Count("wedges", 1)
			run.Violation(o.Status+":"+c07Class(o.Case.Label), fmt.Sprintf("%s/%s input %q wedged the target (%s): %s", o.Transport, o.Case.Phase, o.Case.Label, o.Status, o.Detail), map[string]any{"case": o.Case, "transport": o.Transport, "detail": o.Detail})
		}
		if sampled < 3 && o.Case.Flag {
			sampled++
			msgs := []string{}
			for _, m := range o.Case.Msgs {
				s := string(m)
				if len(s) > 160 {
					s = s[:160] + "..."
				}
				msgs = append(msgs, fmt.Sprintf("%q", s))
			}
			run.Sample(map[string]any{"label": o.Case.Label, "phase": o.Case.Phase, "transport": o.Transport, "msgs": msgs, "status": o.Status, "join_probe": o.Join})
		}
	}
	collectRaces(run, work)
	run.Finish(run.Pick(300, 600))
	_ = io.Discard
}
