package main

import (
	"fmt"
	"os"
	"path/filepath"
	"sync"

	"verif/harness/internal/ev"

	"github.com/ansible/receptor/pkg/workceptor"
)

// Additional C14 sub-monitors (in-process, real StatusFileData API).
//
// (1) fresh file: the status file does not exist yet when N writers with their own receivers start
//     read-modify-write updates at the same moment (UpdateFullStatus creates it). Every increment
//     must be in the final record.
// (2) taking turns: two long-lived writers, each re-using one receiver (as the runner process and the
//     daemon's unit object do), update the record strictly alternately; one of them repeats exactly
//     the values it wrote before. After every update the stored record must be the one just written:
//     an update may not be skipped because it equals what the writer believes to be there.
// (3) readers of the in-memory copy while it is refreshed from the file: see c14mem.go.
func runC14Turns(run *ev.Run) {
	runC14Memory(run)
	dir := filepath.Join(workDir(), "c14turns")
	_ = os.MkdirAll(dir, 0o755)
	// ---- (1)
	lost := 0
	rounds := run.Pick(40, 400)
	for r := 0; r < rounds; r++ {
		fn := filepath.Join(dir, fmt.Sprintf("fresh%d", r), "status")
		_ = os.MkdirAll(filepath.Dir(fn), 0o755)
		const writers = 8
		start := make(chan struct{})
		var wg sync.WaitGroup
		for w := 0; w < writers; w++ {
			wg.Add(1)
			go func(w int) {
				defer wg.Done()
				sfd := &workceptor.StatusFileData{}
				<-start
				_ = sfd.UpdateFullStatus(fn, func(s *workceptor.StatusFileData) {
					s.StdoutSize++
					s.Detail = fmt.Sprintf("w%d", w)
					if w == 0 {
						s.WorkType = "owned-by-w0"
					}
				})
			}(w)
		}
		close(start)
		wg.Wait()
		fin := &workceptor.StatusFileData{}
		if err := fin.Load(fn); err != nil {
			run.Violation("fresh-file:unreadable", fmt.Sprintf("round %d: after %d concurrent first updates of a new status file the record cannot be loaded: %v", r, writers, err), nil)
			continue
		}
		if fin.StdoutSize != writers || fin.WorkType != "owned-by-w0" {
			lost++
			if lost <= 3 {
				run.Violation("lost-update:fresh-file", fmt.Sprintf("round %d: %d writers each applied one increment to a status file that did not exist yet; the stored counter is %d and the field owned by writer 0 is %q", r, writers, fin.StdoutSize, fin.WorkType), map[string]any{"final": fin})
			}
		}
		_ = os.RemoveAll(filepath.Dir(fn))
	}
	run.Eval(rounds)
	run.Count("fresh_file_rounds", int64(rounds))
	if lost == 0 {
		run.Distinct("fresh-file-race")
	}
	// ---- (2)
	fn := filepath.Join(dir, "turns", "status")
	_ = os.MkdirAll(filepath.Dir(fn), 0o755)
	init0 := &workceptor.StatusFileData{State: workceptor.WorkStatePending, Detail: "created", WorkType: "t"}
	if err := init0.Save(fn); err != nil {
		run.Inconclusive("C14 turns: " + err.Error())
		return
	}
	w1 := &workceptor.StatusFileData{}
	w2 := &workceptor.StatusFileData{}
	skipped := 0
	alternations := run.Pick(100, 1000)
	for i := 0; i < alternations; i++ {
		// writer 1 repeats the same values every time (a runner's tick with unchanged output size)
		_ = w1.UpdateBasicStatus(fn, workceptor.WorkStateRunning, "Running: PID 4242", 77)
		chk := &workceptor.StatusFileData{}
		if err := chk.Load(fn); err == nil && (chk.State != workceptor.WorkStateRunning || chk.Detail != "Running: PID 4242" || chk.StdoutSize != 77) {
			skipped++
			if skipped <= 3 {
				run.Violation("lost-update:repeated-values", fmt.Sprintf("alternation %d: a long-lived writer wrote (Running, \"Running: PID 4242\", 77) again after another writer had changed the record; the stored record is still (%d, %q, %d)", i, chk.State, chk.Detail, chk.StdoutSize), map[string]any{"stored": chk})
			}
		}
		// writer 2 changes it
		_ = w2.UpdateBasicStatus(fn, workceptor.WorkStateFailed, fmt.Sprintf("other-%d", i%3), int64(i%5))
		chk2 := &workceptor.StatusFileData{}
		if err := chk2.Load(fn); err == nil && chk2.State != workceptor.WorkStateFailed {
			skipped++
			if skipped <= 3 {
				run.Violation("lost-update:repeated-values", fmt.Sprintf("alternation %d: the second writer's update is not in the stored record (%d, %q)", i, chk2.State, chk2.Detail), nil)
			}
		}
		if chk2.WorkType != "t" {
			run.Violation("owned-field-wiped:WorkType", fmt.Sprintf("alternation %d: the work type set at creation is gone (%q)", i, chk2.WorkType), nil)
			break
		}
	}
	run.Eval(alternations)
	run.Count("turn_taking_alternations", int64(alternations))
	if skipped == 0 {
		run.Distinct("turn-taking-repeated-values")
	}
}
