#!/bin/bash
# Runs the repository's own suite with the verif guard OFF and compares the passing set
# with /root/.vp/BASELINE.json (stable_pass). Exit 0 iff every stable test passes.
export GOFLAGS=-mod=mod GOPROXY=off GOSUMDB=off GOTOOLCHAIN=local
OUT=${1:-/verif/.work/baseline.gotest.json}
mkdir -p "$(dirname "$OUT")"
(cd /repo && go test -mod=mod -json -vet=off -count=1 -timeout 25m ./... ) > "$OUT" 2>/dev/null
# the workceptor tests leave a status record in their package directory: remove it if it is untracked
git -C /repo clean -fq -- pkg/workceptor/status pkg/workceptor/status.lock 2>/dev/null
python3 - "$OUT" <<'PY'
import json,sys
passed=set()
for line in open(sys.argv[1]):
    try: e=json.loads(line)
    except Exception: continue
    if e.get("Action")=="pass" and e.get("Test"):
        passed.add(e["Package"]+"::"+e["Test"])
base=json.load(open("/root/.vp/BASELINE.json"))["stable_pass"]
missing=[t for t in base if t not in passed]
print("baseline stable tests: %d, passing now: %d, missing: %d"%(len(base),len(base)-len(missing),len(missing)))
for t in missing[:40]: print("  NOT PASSING:",t)
sys.exit(1 if missing else 0)
PY
