#!/bin/bash
# ./mutrun.sh <worktree-dir> <patch.diff> <Cxx> [tier]  — apply a patch to a scratch worktree of /repo,
# run one check against it (VERIF_REPO), and restore the worktree. Used for sensitivity runs only.
set -u
WT=$1; PATCH=$2; ID=$3; TIER=${4:-quick}
[ -d "$WT" ] || git -C /repo worktree add --detach "$WT" HEAD >/dev/null 2>&1
git -C "$WT" checkout -q -- . && git -C "$WT" apply "$PATCH" || { echo "patch does not apply"; exit 2; }
(cd /verif && VERIF_REPO=$WT ./check "$ID" "$TIER" 2>&1 | grep -E "^(summary|VIOLATION|KNOWN-FINDING|INCONCLUSIVE|BUILD-FAILED|violation-detail)" | cut -c1-400 | head -12)
git -C "$WT" checkout -q -- .
