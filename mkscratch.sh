#!/bin/bash
# ./mkscratch.sh <dir>  — private copy of the harness for developing one monitor in isolation.
# Build there:  cd <dir>/harness && go build -race -tags verif -o <dir>/vmon ./cmd/vmon
# Run there:    cd <dir> && ./run.sh C12 quick
set -e
D=$1
mkdir -p "$D"/{evidence,.work}
rsync -a --delete /verif/harness/ "$D/harness/"
cp /verif/known-findings.txt "$D/known-findings.txt"
cat > "$D/run.sh" <<EOS
#!/bin/bash
# usage: ./run.sh <Cxx> quick|thorough [args]   (VERIF_SEED from the environment, default 1)
export GOFLAGS=-mod=mod GOPROXY=off GOSUMDB=off GOTOOLCHAIN=local
cd "$D/harness" || exit 2
go build -race -tags verif -o "$D/vmon" ./cmd/vmon || exit 2
if [ "\$BUILD_DAEMON" = 1 ]; then (cd \${VERIF_REPO:-/repo} && go build -race -tags verif -o "$D/receptor" ./cmd/receptor-cl) || exit 2; fi
W="$D/.work/\$1-\$\$"; mkdir -p "\$W"
export VERIF_ROOT="$D" VERIF_WORK="\$W" VERIF_VMON="$D/vmon" VERIF_DAEMON="$D/receptor" VERIF_SEED=\${VERIF_SEED:-1}
export GORACE="halt_on_error=0 log_path=\$W/race"
"$D/vmon" "\$@"; rc=\$?
rm -rf "\$W"
exit \$rc
EOS
chmod +x "$D/run.sh"
echo "scratch harness in $D"
