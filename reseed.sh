#!/bin/bash
# ./reseed.sh <Cxx>...  - re-run the quick check of each property against every seeded change kept for it
# (no demo re-confirmation): apply seeded/<id>/patch.diff in the scratch worktree /tmp/mut/<Cxx> at /repo HEAD,
# run the check with VERIF_REPO, append the run to meta.json, print one line per change.
cd "$(dirname "$0")"
HEAD=$(git -C /repo rev-parse HEAD)
for P in "$@"; do
  WT=/tmp/mut/$P
  [ -d "$WT" ] || git -C /repo worktree add --detach "$WT" HEAD >/dev/null 2>&1
  for D in seeded/$P-*; do
    [ -f "$D/patch.diff" ] || continue
    git -C "$WT" reset -q --hard; git -C "$WT" clean -fdq; git -C "$WT" checkout -q --detach "$HEAD"
    if ! git -C "$WT" apply "$PWD/$D/patch.diff" 2>/dev/null; then echo "RESEED $(basename $D) PATCH-DOES-NOT-APPLY"; continue; fi
    OUT=$(VERIF_REPO=$WT ./check $P quick 2>&1); rc=$?
    keys=$(echo "$OUT" | grep -o 'violation-detail property=[A-Z0-9]* key=[^ ]*' | sed 's/.*key=//' | sort | uniq -c | awk '{print $2"x"$1}' | head -8 | paste -sd, -)
    python3 - "$D/meta.json" "$rc" "$keys" <<'PY'
import json,sys
p,rc,keys=sys.argv[1],int(sys.argv[2]),sys.argv[3]
m=json.load(open(p))
m.setdefault("check_runs",[]).append({"tier":"quick","exit":rc,"violation_keys":keys,"note":"regression pass against the final monitors and /repo HEAD"})
if rc==1 and keys: m["detected"]=True
json.dump(m,open(p,"w"),indent=1)
PY
    echo "RESEED $(basename $D) rc=$rc keys=[$keys]"
    git -C "$WT" reset -q --hard
  done
done
